#!/usr/bin/env python3
"""Rewrite the table of seeded changes in DESIGN.md (between the SEEDTABLE markers) from seeded/*/meta.json."""
import glob
import json
import os

ROOT = os.path.dirname(os.path.dirname(os.path.abspath(__file__)))


def main():
    rows = ['| seeded change | breaks | what it needs to manifest | first run (checks as they were) | strengthening | detected now by |', '|---|---|---|---|---|---|']
    n = 0
    for d in sorted(glob.glob(os.path.join(ROOT, 'seeded', '*'))):
        mp = os.path.join(d, 'meta.json')
        if not os.path.exists(mp):
            continue
        m = json.load(open(mp))
        h = m.get('history', {})
        needs = (m.get('needs_to_manifest') or '').replace('|', '/').replace('\n', ' ')
        if len(needs) > 260:
            needs = needs[:257] + '...'
        rows.append('| %s | %s | %s | %s | %s | %s |' % (os.path.basename(d), m.get('property'), needs, h.get('first_run', '').replace('|', '/'),
                                                       h.get('strengthening', '').replace('|', '/') or '—', ', '.join(m.get('detected_by', [])) or '**none**'))
        n += 1
    p = os.path.join(ROOT, 'DESIGN.md')
    s = open(p).read()
    a, b = '<!-- SEEDTABLE:BEGIN -->', '<!-- SEEDTABLE:END -->'
    i, j = s.index(a), s.index(b)
    s = s[:i + len(a)] + '\n' + '\n'.join(rows) + '\n' + s[j:]
    open(p, 'w').write(s)
    print('%d seeded changes tabulated' % n)


if __name__ == '__main__':
    main()
