#!/usr/bin/env python3
"""Confirm a seeded property-breaking change and run our checks against it.

  tools/seedcheck.py <prop> <patch.diff> <demo.py> <seed-id> [--also C01,C02] [--tier quick] [--inplace] [--nosave]

1. in a scratch worktree of /repo (outside /repo and /verif): the demo passes on the clean tree,
   the patch applies, the repository's own suite still reports 46 passed, the demo fails;
2. `./vf check <prop>` (plus --also) is run against the changed sources.  Default: against the scratch worktree
   (VF_REPO=<worktree>, evidence/replays redirected with VF_OUT so the committed evidence is not overwritten);
   with --inplace the patch is applied to /repo itself (`git -C /repo apply`), the checks are run, and it is undone
   (`git -C /repo checkout -- .`) -- the two are the same sources, --inplace is the way the brief describes;
3. /verif/seeded/<seed-id>/{patch.diff, demo.py, meta.json} is written (unless --nosave).
The scratch worktree is removed at the end.
"""
import json
import os
import shutil
import subprocess
import sys
import time

PY = '/venv/bin/python'


def sh(cmd, cwd=None, env=None, timeout=3600):
    p = subprocess.run(cmd, shell=True, cwd=cwd, env=env, stdout=subprocess.PIPE, stderr=subprocess.STDOUT, timeout=timeout)
    return p.returncode, p.stdout.decode(errors='replace')


def opt(name, default=None):
    if name in sys.argv:
        return sys.argv[sys.argv.index(name) + 1]
    return default


def main():
    prop, patch, demo, sid = sys.argv[1:5]
    also = [p for p in (opt('--also') or '').split(',') if p]
    tier = opt('--tier', 'quick')
    inplace = '--inplace' in sys.argv
    patch, demo = os.path.abspath(patch), os.path.abspath(demo)
    wt = '/tmp/sc-%d' % os.getpid()
    meta = {'property': prop, 'id': sid, 'ran': []}
    rc, out = sh('git -C /repo worktree add -q --detach %s HEAD' % wt)
    assert rc == 0, out
    scratch = '/tmp/sc-run-%d' % os.getpid()
    os.makedirs(scratch)
    env = dict(os.environ, PYTHONPATH=wt, PYTHONHASHSEED='0')
    results = {}
    try:
        rc0, out0 = sh('timeout 600 %s %s' % (PY, demo), cwd=scratch, env=env)
        meta['demo_on_clean_tree_exit'] = rc0
        rc, out = sh('git apply %s' % patch, cwd=wt)
        meta['patch_applies'] = rc == 0
        if rc != 0:
            print('PATCH DOES NOT APPLY', out)
        rc, out = sh('timeout 900 %s -m pytest -q -p no:cacheprovider --timeout=900 --continue-on-collection-errors 2>&1 | tail -1' % PY, cwd=wt, env=env)
        meta['suite_with_change'] = out.strip()
        sh('rm -f foo.pkl', cwd=wt)
        rc1, out1 = sh('timeout 600 %s %s' % (PY, demo), cwd=scratch, env=env)
        meta['demo_with_change_exit'] = rc1
        meta['demo_with_change_output'] = out1[-600:]
        ok = meta['demo_on_clean_tree_exit'] == 0 and meta['patch_applies'] and meta['demo_with_change_exit'] != 0 \
            and '46 passed' in meta['suite_with_change'] and '3 failed' in meta['suite_with_change']
        meta['confirmed'] = ok
        print('confirmed' if ok else 'NOT CONFIRMED', json.dumps({k: meta[k] for k in ('demo_on_clean_tree_exit', 'suite_with_change', 'demo_with_change_exit')}))
        if ok:
            cenv = dict(os.environ)
            cenv.pop('PYTHONPATH', None)
            if inplace:
                rc, out = sh('git -C /repo status --porcelain --untracked-files=no')
                assert out.strip() == '', '/repo is dirty: %s' % out
                rc, out = sh('git -C /repo apply %s' % patch)
                assert rc == 0, out
            else:
                cenv['VF_REPO'] = wt
            cenv['VF_OUT'] = os.path.join(scratch, 'out')
            try:
                for p in [prop] + also:
                    t0 = time.time()
                    rc, out = sh('timeout 3000 ./vf check %s --tier %s' % (p, tier), cwd='/verif', env=cenv)
                    viol = [l for l in out.splitlines() if l.startswith('VIOLATION')]
                    det = [l for l in out.splitlines() if l.startswith('  detail:')]
                    results[p] = {'exit': rc, 'violations': len(viol), 'first_detail': det[0][:400] if det else '', 'wall_s': round(time.time() - t0, 1),
                                  'tail': out[-300:] if rc not in (0, 1) else ''}
                    print('  check %s: exit %d, %d violation line(s), %.0fs %s' % (p, rc, len(viol), time.time() - t0, det[0][:200] if det else ''))
            finally:
                if inplace:
                    sh('git -C /repo checkout -- .')
    finally:
        sh('git -C /repo worktree remove --force %s' % wt)
        shutil.rmtree(scratch, ignore_errors=True)
    meta['checks'] = results
    meta['tier'] = tier
    meta['detected_by'] = sorted(p for p, r in results.items() if r['exit'] == 1 and r['violations'] > 0)
    if '--nosave' in sys.argv:
        return 0 if meta.get('confirmed') else 1
    d = os.path.join('/verif/seeded', sid)
    os.makedirs(d, exist_ok=True)
    if os.path.abspath(os.path.dirname(patch)) != os.path.abspath(d):
        shutil.copy(patch, os.path.join(d, 'patch.diff'))
        shutil.copy(demo, os.path.join(d, 'demo.py'))
    old = {}
    mp = os.path.join(d, 'meta.json')
    if os.path.exists(mp):
        old = json.load(open(mp))
    for k in ('summary', 'needs_to_manifest', 'origin', 'expected_detected_by', 'kept_because', 'design_note', 'history'):
        if k in old and k not in meta:
            meta[k] = old[k]
    meta['ran'] = ['demo on clean scratch worktree', 'repository suite with change (46 passed required)', 'demo with change',
                   './vf check --tier %s against the changed sources (%s)' % (tier, 'git -C /repo apply, then git checkout -- .' if inplace else 'scratch worktree via VF_REPO')]
    json.dump(meta, open(mp, 'w'), indent=1, sort_keys=True)
    return 0 if meta.get('confirmed') else 1


if __name__ == '__main__':
    sys.exit(main())
