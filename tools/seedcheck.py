#!/usr/bin/env python3
"""Confirm a seeded property-breaking change and run our checks against it.

  tools/seedcheck.py <prop> <patch.diff> <demo.py> <seed-id> [--also C01,C02] [--tier quick]

1. in a scratch worktree of /repo (outside /repo and /verif): the demo passes on the clean tree,
   the patch applies, the repository's own suite still reports 46 passed, the demo fails;
2. the patch is applied to /repo, `./vf check <prop>` is run (plus --also), and undone;
3. /verif/seeded/<seed-id>/{patch.diff, demo.py, meta.json} is written.
"""
import json
import os
import re
import shutil
import subprocess
import sys
import time

PY = '/venv/bin/python'


def sh(cmd, cwd=None, env=None, timeout=1800):
    p = subprocess.run(cmd, shell=True, cwd=cwd, env=env, stdout=subprocess.PIPE, stderr=subprocess.STDOUT, timeout=timeout)
    return p.returncode, p.stdout.decode(errors='replace')


def main():
    prop, patch, demo, sid = sys.argv[1:5]
    also = []
    tier = 'quick'
    if '--also' in sys.argv:
        also = sys.argv[sys.argv.index('--also') + 1].split(',')
    if '--tier' in sys.argv:
        tier = sys.argv[sys.argv.index('--tier') + 1]
    patch, demo = os.path.abspath(patch), os.path.abspath(demo)
    wt = '/tmp/sc-%d' % os.getpid()
    meta = {'property': prop, 'id': sid, 'ran': []}
    rc, out = sh('git -C /repo worktree add -q --detach %s HEAD' % wt)
    assert rc == 0, out
    scratch = '/tmp/sc-run-%d' % os.getpid()
    os.makedirs(scratch)
    env = dict(os.environ, PYTHONPATH=wt, PYTHONHASHSEED='0')
    try:
        rc0, out0 = sh('timeout 600 %s %s' % (PY, demo), cwd=scratch, env=env)
        meta['demo_on_clean_tree_exit'] = rc0
        rc, out = sh('git apply %s' % patch, cwd=wt)
        meta['patch_applies'] = rc == 0
        if rc != 0:
            print('PATCH DOES NOT APPLY', out)
        rc, out = sh('timeout 900 %s -m pytest -q -p no:cacheprovider --timeout=900 --continue-on-collection-errors 2>&1 | tail -1' % PY, cwd=wt, env=env)
        meta['suite_with_change'] = out.strip()
        rc1, out1 = sh('timeout 600 %s %s' % (PY, demo), cwd=scratch, env=env)
        meta['demo_with_change_exit'] = rc1
        meta['demo_with_change_output'] = out1[-600:]
    finally:
        sh('git -C /repo worktree remove --force %s' % wt)
        shutil.rmtree(scratch, ignore_errors=True)
    ok = meta['demo_on_clean_tree_exit'] == 0 and meta['patch_applies'] and meta['demo_with_change_exit'] != 0 \
        and '46 passed' in meta['suite_with_change'] and '3 failed' in meta['suite_with_change']
    meta['confirmed'] = ok
    print('confirmed' if ok else 'NOT CONFIRMED', json.dumps({k: meta[k] for k in ('demo_on_clean_tree_exit', 'suite_with_change', 'demo_with_change_exit')}))
    results = {}
    if ok:
        rc, out = sh('git -C /repo status --porcelain --untracked-files=no')
        assert out.strip() == '', '/repo is dirty: %s' % out
        rc, out = sh('git -C /repo apply %s' % patch)
        assert rc == 0, out
        try:
            for p in [prop] + also:
                t0 = time.time()
                rc, out = sh('timeout 2400 ./vf check %s --tier %s' % (p, tier), cwd='/verif')
                viol = [l for l in out.splitlines() if l.startswith('VIOLATION')]
                det = [l for l in out.splitlines() if l.startswith('  detail:')]
                results[p] = {'exit': rc, 'violations': len(viol), 'first_detail': det[0][:400] if det else '', 'wall_s': round(time.time() - t0, 1),
                              'tail': out[-300:] if rc not in (0, 1) else ''}
                print('  check %s: exit %d, %d violation line(s), %.0fs %s' % (p, rc, len(viol), time.time() - t0, det[0][:160] if det else ''))
        finally:
            sh('git -C /repo checkout -- .')
    meta['checks'] = results
    meta['detected_by'] = sorted(p for p, r in results.items() if r['exit'] == 1 and r['violations'] > 0)
    d = os.path.join('/verif/seeded', sid)
    os.makedirs(d, exist_ok=True)
    shutil.copy(patch, os.path.join(d, 'patch.diff'))
    shutil.copy(demo, os.path.join(d, 'demo.py'))
    notes = patch.replace('patch', 'notes').replace('.diff', '.md')
    if os.path.exists(notes):
        meta['needs_to_manifest'] = open(notes).read()[:1500]
    meta['ran'] = ['demo on clean scratch worktree', 'repository suite with change', 'demo with change', './vf check (quick) with the change applied to /repo, then git checkout -- .']
    json.dump(meta, open(os.path.join(d, 'meta.json'), 'w'), indent=1)
    return 0 if ok else 1


if __name__ == '__main__':
    sys.exit(main())
