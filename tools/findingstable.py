#!/usr/bin/env python3
"""Rewrite the table of genuine defects in DESIGN.md (between the FINDINGS markers) from known_findings.json."""
import json
import os

ROOT = os.path.dirname(os.path.dirname(os.path.abspath(__file__)))


def main():
    k = json.load(open(os.path.join(ROOT, 'known_findings.json')))['findings']
    rows = ['| id | property | status | what failed |', '|---|---|---|---|']
    for e in k:
        p = e['property']
        p = ', '.join(p) if isinstance(p, list) else p
        what = e['what']
        if what.startswith('fixed: property='):
            what = what.split(' ', 3)[3]
        rows.append('| %s | %s | %s | %s |' % (e['id'], p, ('**fixed** `%s`' % e['commit']) if e['status'] == 'fixed' else '**open**', what.replace('|', '/')))
    p = os.path.join(ROOT, 'DESIGN.md')
    s = open(p).read()
    a, b = '<!-- FINDINGS:BEGIN -->', '<!-- FINDINGS:END -->'
    i, j = s.index(a), s.index(b)
    s = s[:i + len(a)] + '\n' + '\n'.join(rows) + '\n' + s[j:]
    open(p, 'w').write(s)
    print('%d findings tabulated (%d open)' % (len(k), sum(1 for e in k if e['status'] == 'open')))


if __name__ == '__main__':
    main()
