"""vf selftest: checks of the machinery itself.

  vf selftest fsgate       shim-vs-strace conformance of the event sequences of every C13 operation
  vf selftest determinism  the same schedule / crash point / history replayed twice gives identical observations
  vf selftest seeded       every change under /verif/seeded is re-confirmed and must be detected by its check
"""
import json
import os
import re
import subprocess
import sys

from .core import pool

MUT = ('creat', 'openw', 'write', 'pwrite', 'writev', 'close', 'mkdir', 'rename', 'unlink', 'rmdir', 'ftruncate',
       'fsync', 'fdatasync', 'link', 'symlink', 'truncate', 'fclose')

STRACE_CALLS = 'open,openat,creat,write,pwrite64,writev,close,mkdir,mkdirat,rename,renameat,renameat2,rmdir,unlink,unlinkat,ftruncate,fsync,fdatasync,link,linkat,symlink,symlinkat,truncate,access'

SCRIPT = r'''
import os, sys, pickle
sys.path.insert(0, %(root_verif)r)
from vfw.engines import fsserver
backend, root, op = pickle.loads(bytes.fromhex(%(blob)r))
import random
random.seed(7)
ctx = {'backend': backend, 'root': root}
h = None
if op[0] != 'open':
    h = fsserver.open_handle(backend, root, cached=False)
os.access('/vf-mark-begin', 0)
fsserver.safe_op(h, op, ctx)
os.access('/vf-mark-end', 0)
'''


def _norm(p, root):
    p = p[len(root):] if p.startswith(root) else p
    return re.sub(r'\.I_[0-9a-zA-Z_.]+', '.I_#', p)


def strace_events(backend, root, op):
    import pickle
    blob = pickle.dumps((backend, root, op)).hex()
    script = SCRIPT % {'root_verif': os.path.dirname(os.path.dirname(os.path.abspath(__file__))), 'blob': blob}
    out = os.path.join(root, '..', 'strace.%d.out' % os.getpid())
    env = dict(os.environ, PYTHONHASHSEED='0')
    subprocess.check_call(['strace', '-f', '-y', '-s', '300', '-e', 'trace=' + STRACE_CALLS, '-o', out, sys.executable, '-c', script],
                          env=env, stdout=subprocess.DEVNULL, stderr=subprocess.DEVNULL)
    events = []
    inside = False
    wfds = set()
    for line in open(out, errors='replace'):
        m = re.match(r'^\d+\s+(\w+)\((.*)\)\s+=\s+(-?\d+)', line)
        if not m:
            continue
        call, args, ret = m.group(1), m.group(2), int(m.group(3))
        if call == 'access':
            if 'vf-mark-begin' in args:
                inside = True
            if 'vf-mark-end' in args:
                inside = False
            continue
        paths = re.findall(r'"([^"]*)"', args)
        fdpaths = re.findall(r'<([^>]*)>', args)
        if call in ('open', 'openat', 'creat'):
            p = paths[0] if paths else ''
            if not p.startswith('/') and fdpaths:
                p = fdpaths[0] + '/' + p
            if not p.startswith(root):
                continue
            flags = args
            kind = None
            if call == 'creat' or 'O_CREAT' in flags or 'O_TRUNC' in flags:
                kind = 'creat'
            elif 'O_WRONLY' in flags or 'O_RDWR' in flags:
                kind = 'openw'
            if ret >= 0 and kind:
                wfds.add(ret)
            elif ret >= 0:
                wfds.discard(ret)
            if kind and inside:
                events.append((kind, _norm(p, root)))
            continue
        if call in ('write', 'pwrite64', 'writev', 'ftruncate', 'fsync', 'fdatasync', 'close'):
            fdm = re.match(r'(\d+)<([^>]*)>', args)
            if not fdm:
                continue
            fd, p = int(fdm.group(1)), fdm.group(2)
            if not p.startswith(root):
                if call == 'close':
                    wfds.discard(fd)
                continue
            if call == 'close':
                if fd in wfds and inside:
                    events.append(('close', _norm(p, root)))
                wfds.discard(fd)
                continue
            if inside:
                events.append(({'pwrite64': 'pwrite'}.get(call, call), _norm(p, root)))
            continue
        # namespace calls: the path that decides membership is the (last) target path
        if not paths:
            continue
        p = paths[-1]
        if not p.startswith('/') and fdpaths:
            p = fdpaths[-1] + '/' + p
        if not p.startswith(root) or not inside:
            continue
        kind = {'mkdirat': 'mkdir', 'renameat': 'rename', 'renameat2': 'rename', 'unlinkat': 'unlink', 'linkat': 'link',
                'symlinkat': 'symlink'}.get(call, call)
        if call == 'unlinkat' and 'AT_REMOVEDIR' in args:
            kind = 'rmdir'
        events.append((kind, _norm(p, root)))
    os.unlink(out)
    return events


def selftest_fsgate():
    from .engines import fsgate
    from .props import c13
    pool._init_worker(pool.scratch_base())
    fsgate.ensure_built()
    srv = fsgate.server()
    n = bad = 0
    for backend in c13.BACKENDS_Q:
        for opname, op in c13.operations('thorough'):
            prior = c13.PRIORS['two']
            spec = {'backend': backend, 'prior': prior, 'op': op, 'root': pool.fresh_dir('st'), 'mode': 'log'}
            r = srv.request({'cmd': 'crash', 'spec': spec})
            shim = []
            for e in r['events']:
                parts = e.split(' ', 2)
                kind = parts[1].split(':')[0]
                if kind in MUT:
                    shim.append(({'fclose': 'close'}.get(kind, kind), _norm(spec['root'] + (parts[2] if len(parts) > 2 else ''), spec['root'])))
            pool.rm(spec['root'])
            # same operation, same prior state, under strace (no shim)
            root2 = pool.fresh_dir('st')
            srv.request({'cmd': 'crash', 'spec': {'backend': backend, 'prior': prior, 'op': ('len',), 'root': root2, 'mode': 'log'}})
            st = strace_events(backend, root2, op)
            pool.rm(root2)
            n += 1
            if shim != st:
                bad += 1
                print('MISMATCH %s %s\n  shim:   %s\n  strace: %s' % (backend, opname, shim, st))
    srv.close()
    print('fsgate conformance: %d operation traces compared with strace, %d mismatches' % (n, bad))
    return 1 if bad else 0


def selftest_determinism():
    """replay one recorded execution of each engine twice and require identical observations"""
    from .engines import fsgate, cachemc
    from .props import c13, c14, e1
    pool._init_worker(pool.scratch_base())
    srv = fsgate.server()
    bad = 0
    # crash points
    for backend in ('dir', 'file', 'sql'):
        obs = []
        for rep in range(2):
            spec = {'backend': backend, 'prior': c13.PRIORS['two'], 'op': ('set', 'k1', 'new1'), 'root': pool.fresh_dir('d'),
                    'mode': 'kill', 'kill_at': 4, 'kill_short': 0}
            r = srv.request({'cmd': 'crash', 'spec': spec})
            obs.append((r['killed'], [e.split(' ', 1)[1].replace(spec['root'], '') for e in r['events']],
                        json.dumps(r['recovery'], sort_keys=True, default=repr)))
            pool.rm(spec['root'])
        if obs[0][0] != obs[1][0] or obs[0][2] != obs[1][2] or len(obs[0][1]) != len(obs[1][1]):
            bad += 1
            print('crash run not deterministic for', backend, obs)
    # schedules
    for sc in c14.scenarios('quick')[:6] + c14.scenarios('quick')[-3:]:
        obs = []
        for rep in range(2):
            spec = {'backend': sc['backend'], 'prior': sc['prior'], 'actors': sc['actors'], 'reads': sc['backend'].startswith(('dir', 'file')),
                    'root': pool.fresh_dir('d'), 'prefix': [0, 1, 0, 1, 1]}
            try:
                r = srv.request({'cmd': 'sched', 'spec': spec})
                obs.append(([(t[0], t[1], t[2].split(':')[0]) for t in r['trace']], repr(r['results'])))
            except RuntimeError as e:
                obs.append(('err', str(e)[-200:]))
            pool.rm(spec['root'])
        if obs[0] != obs[1]:
            bad += 1
            print('schedule not deterministic for', sc['name'], obs)
    srv.close()
    # cache histories (incl. RR chooser)
    cfg = e1.C('std', 'rr', 2, False, 'default', 'dict')
    hist = [(('call', 0), ()), (('call', 1), ()), (('call', 2), (1,)), (('dump',), ()), (('call', 0), ())]
    snaps = []
    for rep in range(2):
        S = cachemc.replay(cfg, hist)
        snaps.append(cachemc.snap_full(cachemc.snapshot(S.wrapper, S.log)))
        S.close()
    if snaps[0] != snaps[1]:
        bad += 1
        print('cache history not deterministic')
    print('determinism: %s' % ('OK' if not bad else '%d divergences' % bad))
    return 1 if bad else 0


def selftest_seeded(rest):
    root = os.path.join(os.path.dirname(os.path.dirname(os.path.abspath(__file__))), 'seeded')
    missed = []
    n = 0
    for sid in sorted(os.listdir(root)):
        d = os.path.join(root, sid)
        mp = os.path.join(d, 'meta.json')
        if not os.path.exists(mp) or (rest and sid not in rest):
            continue
        meta = json.load(open(mp))
        if not meta.get('confirmed'):
            continue
        props = meta.get('expected_detected_by') or [meta['property']]
        cmd = [os.path.join(os.path.dirname(root), 'tools', 'seedcheck.py'), props[0], os.path.join(d, 'patch.diff'), os.path.join(d, 'demo.py'), sid]
        if len(props) > 1:
            cmd += ['--also', ','.join(props[1:])]
        keep = dict(meta)
        subprocess.call(cmd)
        new = json.load(open(mp))
        n += 1
        for k in ('expected_detected_by', 'kept_because', 'design_note'):
            if k in keep:
                new[k] = keep[k]
        json.dump(new, open(mp, 'w'), indent=1)
        if not set(props) & set(new.get('detected_by', [])):
            missed.append(sid)
    print('seeded changes re-run: %d, missed: %s' % (n, missed))
    return 1 if missed else 0


def main(what, rest):
    if what == 'fsgate':
        return selftest_fsgate()
    if what == 'determinism':
        return selftest_determinism()
    if what == 'seeded':
        return selftest_seeded(rest)
    if what == 'all':
        return selftest_fsgate() or selftest_determinism()
    print('unknown selftest', what)
    return 2
