"""vf: runner for the klepto verification framework.

  vf check Cnn [--tier quick|thorough]
  vf replay <replay.json>
  vf selftest <what>
"""
import argparse
import json
import os
import sys

E1 = ('C01', 'C02', 'C05', 'C06', 'C07', 'C15', 'C16', 'C18', 'C20')
E2 = ('C03', 'C04', 'C08')
E5 = ('C09', 'C10', 'C11', 'C12', 'C17', 'C19')


def run_check(prop, tier, seed):
    if prop in E1:
        from .props import e1
        return e1.run(prop, tier, seed)
    if prop in E2:
        from .props import e2
        return e2.run(prop, tier, seed)
    if prop in E5:
        from .props import e5
        return e5.run(prop, tier, seed)
    if prop == 'C13':
        from .props import c13
        return c13.run(tier, seed)
    if prop == 'C14':
        from .props import c14
        return c14.run(tier, seed)
    print('unknown property %s' % prop)
    return 2


def run_replay(path):
    with open(path) as f:
        doc = json.load(f)
    eng = doc.get('engine')
    prop = doc.get('property')
    if eng == 'cachemc':
        from .engines import cachemc
        from .props import e1
        found = cachemc.replay_doc(doc, e1.make_monitors_for(prop))
    elif eng in ('archmc', 'syncmc'):
        from .props import e2
        found = e2.replay(doc)
    elif eng == 'callmc':
        from .props import e5
        found = e5.replay(doc)
    elif eng == 'crashmc':
        from .props import c13
        found = c13.replay(doc)
    elif eng == 'schedmc':
        from .props import c14
        found = c14.replay(doc)
    else:
        print('unknown engine in replay file: %r' % eng)
        return 2
    if found:
        for sig, detail in found:
            print('STILL FAILS: %s\n  %s' % (json.dumps(sig, sort_keys=True, default=repr), detail))
        return 1
    print('replay: no violation (expected == observed)')
    return 0


def main(argv=None):
    ap = argparse.ArgumentParser(prog='vf')
    sub = ap.add_subparsers(dest='cmd')
    c = sub.add_parser('check')
    c.add_argument('prop')
    c.add_argument('--tier', default=os.environ.get('VERIF_TIER', 'quick'), choices=['quick', 'thorough'])
    r = sub.add_parser('replay')
    r.add_argument('path')
    s = sub.add_parser('selftest')
    s.add_argument('what', nargs='?', default='all')
    s.add_argument('rest', nargs='*')
    a = ap.parse_args(argv)
    try:
        seed = int(os.environ.get('VERIF_SEED', '0'))
    except ValueError:
        seed = 0
    if a.cmd == 'check':
        return run_check(a.prop, a.tier, seed)
    if a.cmd == 'replay':
        return run_replay(a.path)
    if a.cmd == 'selftest':
        from . import selftest
        return selftest.main(a.what, a.rest)
    ap.print_help()
    return 2


if __name__ == '__main__':
    sys.exit(main())
