"""C12: rounding tolerance merges nearby calls but never alters what the function sees."""
import collections
import copy
import itertools

from ..core import pool
from ..core.evidence import Report
from .e5 import _v

NT = collections.namedtuple('NT', 'p q')

import fractions
import decimal
# exact floats are rounded; every other number type (ints, bools, Fractions, Decimals, complex) is non-float data
SCALARS = [2.5, 2.45, 2.55, 2.54, 1.234, 12.0, -0.05, float('inf'), 3, True, None, 'ab', b'ab', 'a.b',
           fractions.Fraction(1, 3), fractions.Fraction(3, 10), fractions.Fraction(31, 2), decimal.Decimal('2.45'), decimal.Decimal('2.54'),
           2.45 + 0j, 2.54 + 0j]
# (for every tolerance used there are two element pairs that differ only in a float and collapse under it: 2.45/2.46 at
# tol 1, 2.54/2.6 at tol 0, 12.0/14.0 at tol -1 -- a relational oracle sees a missing rounding only through such a pair)
ELEMS = [(2.45, 'ab'), (2.54, 'ab'), (2.55, 3), (1.234, 1.2), (3, True), (12.0, None), (2.46, 'ab'), (2.6, 'ab'), (14.0, None)]


def containers(elems):
    p, q = elems
    return [
        ('list', [p, q]), ('tuple', (p, q)), ('set', {p, q}), ('frozenset', frozenset((p, q))),
        ('dict-str', {'u': p, 'v': q}), ('dict-str2', {'ab': p, 'cd': q}), ('dict-int', {1: p, 2: q}),
        ('namedtuple', NT(p, q)),
    ]


def values(tier):
    out = [('scalar', s) for s in SCALARS]
    for e in ELEMS:
        out += containers(e)
    nested = [
        ('nested', [[2.45, 'ab'], 2.54]), ('nested', [[2.54, 'ab'], 2.45]), ('nested', {'k': [2.45]}), ('nested', {'k': [2.54]}),
        ('nested', ([2.54], {'q': 2.45})), ('nested', ([2.45], {'q': 2.54})), ('nested', {'k': {'j': 1.234}}),
        ('nested', [(1.234, [1.2, {'z': 2.55}])]), ('nested', {3: [2.45]}), ('nested', [NT(2.45, [2.54])]),
        ('nested', ['ab', ['a.b', b'ab']]),
        ('nested', {'k': [2.6]}), ('nested', ([2.6], {'q': 2.46})), ('nested', {'k': {'j': 1.2341}}), ('nested', [NT(2.46, [2.6])]),
    ]
    out += nested
    if tier == 'thorough':
        for a, b in itertools.product(ELEMS[:3], repeat=2):
            for (ka, va) in containers(a)[:2] + containers(a)[4:6]:
                for (kb, vb) in containers(b)[:1] + containers(b)[4:5]:
                    out.append(('nested', [va, vb]))
                    out.append(('nested', {'w': va, 'x': vb}))
    # sets whose repr depends on insertion order cannot be compared through a string key: drop them
    ok = []
    for kind, v in out:
        if isinstance(v, (set, frozenset)):
            l = list(v)
            if repr(type(v)(l)) != repr(type(v)(reversed(l))):
                continue
        ok.append((kind, v))
    return ok


def is_nt(v):
    return isinstance(v, tuple) and hasattr(v, '_fields')


def ref_round(v, tol, deep, depth=0, maxdepth=None):
    """independent reference rounder; maxdepth: None = unlimited (if deep)"""
    if tol is None:
        return v
    if isinstance(v, float):
        return round(v, tol)
    limit = maxdepth if maxdepth is not None else (10 ** 6 if deep else 0)
    if depth >= limit:
        return v
    if isinstance(v, (str, bytes)):
        return v
    if isinstance(v, dict):
        return type(v)((k, ref_round(x, tol, deep, depth + 1, maxdepth)) for k, x in v.items())
    if is_nt(v):
        return type(v)(*[ref_round(x, tol, deep, depth + 1, maxdepth) for x in v])
    if isinstance(v, (list, tuple, set, frozenset)):
        return type(v)(ref_round(x, tol, deep, depth + 1, maxdepth) for x in v)
    return v


def canon(v):
    """type-sensitive canonical text of a structure (sets order-free)"""
    if isinstance(v, (set, frozenset)):
        return '%s{%s}' % (type(v).__name__, ','.join(sorted(canon(x) for x in v)))
    if isinstance(v, dict):
        return '%s{%s}' % (type(v).__name__, ','.join(sorted('%s:%s' % (canon(k), canon(x)) for k, x in v.items())))
    if isinstance(v, (list, tuple)):
        return '%s(%s)' % (type(v).__name__, ','.join(canon(x) for x in v))
    return '%s:%r' % (type(v).__name__, v)


DECOS = [('klepto', a) for a in ('no', 'inf', 'lfu', 'lru', 'mru', 'rr')] + [('safe', a) for a in ('no', 'inf', 'lfu', 'lru', 'mru', 'rr')]


def _decorator(mod, alg, **kw):
    import klepto
    import klepto.safe
    m = klepto.safe if mod == 'safe' else klepto
    cls = getattr(m, alg + '_cache')
    if alg not in ('no', 'inf'):
        kw['maxsize'] = 1000
    return cls(**kw)


def _worker(task):
    tier, mod, alg, tol, deep, kmname, full = task
    import klepto
    import klepto.keymaps as km
    res = {'counts': collections.Counter(), 'violations': [], 'samples': [], 'nontrivial': 0, 'outcomes': [],
           'config': task}
    # ('raw': keys hold the rounded arguments themselves; an unhashable one makes a safe decorator fall back to calling the
    # function directly -- with the caller's arguments, not with the rounded ones the key was being built from)
    mk = {'string': lambda: km.stringmap(flat=False), 'pickle': lambda: km.picklemap(serializer='dill'), 'raw': lambda: km.keymap()}[kmname]
    vals = values(tier) if full else values('quick')[::3]
    received = []

    def h(x, y=None, z=0.125):          # (z: a float default that rounding at tol 0..2 would change)
        received.append((x, y))
        return len(received)
    cfgtxt = '%s.%s_cache tol=%r deep=%r keymap=%s' % (mod, alg, tol, deep, kmname)
    Wref = None
    if alg == 'keygen':
        K = klepto.keygen(tol=tol, deep=deep, keymap=mk())(h)
        W = None
        keyfn = K
        # the decorators compute their keys by the same rule: one of them, same settings, for comparison
        Wref = klepto.inf_cache(keymap=mk(), tol=tol, deep=deep)(h)
    else:
        W = _decorator(mod, alg, keymap=mk(), tol=tol, deep=deep)(h)
        keyfn = W.key
        W0 = _decorator(mod, alg, keymap=mk())(h)
    entries = []     # (kind, form, value, canon of rounded call, key)
    called = {}      # canon of rounded call -> first call made with it
    for kind, v in vals:
        forms = [('pos', (v,), {}), ('kw', (), {'x': v})]
        if full:
            forms.append(('second', (1.234,), {'y': v}))
        for form, a, k in forms:
            res['counts']['evaluations'] += 1
            want = canon(tuple(sorted({'x': ref_round(a[0] if a else k.get('x'), tol, deep),
                                       'y': ref_round(k.get('y'), tol, deep)}.items())))
            before = copy.deepcopy((a, k))
            try:
                key = keyfn(*a, **k)
            except Exception as e:
                res['violations'].append(_v('C12', {'rule': 'rounding-makes-valid-call-fail', 'exc': type(e).__name__, 'deep': bool(deep),
                                                    'kind': kind, 'where': 'key'},
                                            '%s: key%r raised %r' % (cfgtxt, (a, k), e),
                                            {'task': list(task), 'value': repr(v), 'form': form}))
                continue
            if canon(before) != canon((a, k)):
                res['violations'].append(_v('C12', {'rule': 'caller-arguments-mutated', 'kind': kind},
                                            '%s: arguments %r were mutated to %r' % (cfgtxt, before, (a, k)),
                                            {'task': list(task), 'value': repr(v), 'form': form}))
            if Wref is not None:
                # klepto.keygen and the cache decorators agree on the key of a call
                try:
                    kref = Wref.key(*a, **k)
                except Exception as e:
                    kref = ('RAISED', type(e).__name__)
                if repr(kref) != repr(key):
                    res['violations'].append(_v('C12', {'rule': 'keygen-key-differs-from-decorator-key', 'kind': kind, 'deep': bool(deep)},
                                                '%s: keygen gives %r, inf_cache with the same settings gives %r for call %r' % (cfgtxt, key, kref, (a, k)),
                                                {'task': list(task), 'value': repr(v), 'form': form}))
                # keygen remembers the last call: call() evaluates the function with the caller's own objects
                n0 = len(received)
                try:
                    K.call()
                    rx, ry = received[-1] if len(received) > n0 else (None, None)
                    ax = a[0] if a else k.get('x')
                    ay = k.get('y')
                    if len(received) != n0 + 1 or rx is not ax or ry is not ay:
                        res['violations'].append(_v('C12', {'rule': 'function-sees-altered-arguments', 'kind': kind, 'via': 'keygen.call'},
                                                    '%s: keygen.call() handed %r to the function after the call %r' % (cfgtxt, (rx, ry), (a, k)),
                                                    {'task': list(task), 'value': repr(v), 'form': form}))
                except Exception as e:
                    res['violations'].append(_v('C12', {'rule': 'rounding-makes-valid-call-fail', 'exc': type(e).__name__, 'deep': bool(deep),
                                                        'kind': kind, 'where': 'keygen.call'},
                                                '%s: keygen.call() after %r raised %r' % (cfgtxt, (a, k), e),
                                                {'task': list(task), 'value': repr(v), 'form': form}))
            entries.append((kind, form, v, want, key, a, k))
            if tol is None and W is not None:
                k0 = W0.key(*a, **k)
                if k0 != key:
                    res['violations'].append(_v('C12', {'rule': 'tol-None-changes-key', 'kind': kind},
                                                '%s: key %r differs from the key without rounding %r' % (cfgtxt, key, k0),
                                                {'task': list(task), 'value': repr(v), 'form': form}))
            # the function sees the caller's objects
            if W is not None:
                n0 = len(received)
                try:
                    W(*a, **k)
                except Exception as e:
                    res['violations'].append(_v('C12', {'rule': 'rounding-makes-valid-call-fail', 'exc': type(e).__name__, 'deep': bool(deep),
                                                        'kind': kind, 'where': 'call'},
                                                '%s: call%r raised %r' % (cfgtxt, (a, k), e),
                                                {'task': list(task), 'value': repr(v), 'form': form}))
                    continue
                # the entry the call itself used is the one key() names (the wrapper computes its key in its own copy of the
                # rounding pipeline); no eviction here: maxsize is 1000
                if alg != 'no':
                    try:
                        held = key in W.__cache__()
                    except TypeError:
                        held = True
                    if not held:
                        res['violations'].append(_v('C12', {'rule': 'call-stored-under-another-key', 'kind': kind, 'deep': bool(deep)},
                                                    '%s: after the call %r its key %r is not in the cache; the cache holds %s' % (
                                                        cfgtxt, (a, k), key, repr(list(W.__cache__().keys())[-3:])[:300]),
                                                    {'task': list(task), 'value': repr(v), 'form': form}))
                # ... and calls that round to the same values are answered from one entry: the second is not evaluated
                try:
                    hash(key)
                    keyable = True
                except TypeError:
                    keyable = False         # (nothing can be stored under such a key: every call is evaluated)
                if alg != 'no' and keyable:
                    if want in called and len(received) > n0:
                        res['violations'].append(_v('C12', {'rule': 'same-rounding-recomputed', 'kind': kind, 'deep': bool(deep)},
                                                    '%s: call %r rounds to %s like the earlier call %r, but the function was evaluated again' % (
                                                        cfgtxt, (a, k), want, called[want]),
                                                    {'task': list(task), 'value': repr(v), 'form': form}))
                    called.setdefault(want, (a, k))
                if len(received) > n0:
                    rx, ry = received[-1]
                    ax = a[0] if a else k.get('x')
                    ay = k.get('y')
                    if rx is not ax or ry is not ay:
                        res['violations'].append(_v('C12', {'rule': 'function-sees-altered-arguments', 'kind': kind},
                                                    '%s: function received %r for call %r' % (cfgtxt, (rx, ry), (a, k)),
                                                    {'task': list(task), 'value': repr(v), 'form': form}))
    # all pairs
    bywant = {}
    bykey = {}
    for e in entries:
        kind, form, v, want, key, a, k = e
        fk = repr(key)
        o = bywant.setdefault(want, e)
        if repr(o[4]) != fk:
            res['violations'].append(_v('C12', {'rule': 'same-rounding-different-keys', 'deep': bool(deep), 'kind': kind},
                                        '%s: calls %r and %r round to the same values %s but get keys %r / %r' % (
                                            cfgtxt, (o[5], o[6]), (a, k), want, o[4], key),
                                        {'task': list(task), 'value': repr(v), 'form': form}))
        o = bykey.setdefault(fk, e)
        if o[3] != want:
            res['violations'].append(_v('C12', {'rule': 'different-rounding-same-key', 'deep': bool(deep), 'kind': kind},
                                        '%s: calls %r and %r round differently (%s vs %s) but share key %r' % (
                                            cfgtxt, (o[5], o[6]), (a, k), o[3], want, key),
                                        {'task': list(task), 'value': repr(v), 'form': form}))
    n = len(entries)
    res['counts']['pairs'] = n * (n - 1) // 2
    groups = collections.Counter(e[3] for e in entries)
    res['nontrivial'] = sum(1 for g, c in groups.items() if c >= 2) + len(groups)
    if entries:
        e = entries[len(entries) // 2]
        res['samples'].append({'config': cfgtxt, 'call': repr((e[5], e[6])), 'rounded': e[3], 'key': repr(e[4])[:80]})
    res['counts'] = dict(res['counts'])
    res['config_summary'] = cfgtxt
    return res


def _standalone(task):
    """the standalone simple/shallow/deep rounding decorators against the same oracle"""
    tier, name, tol = task[:3]
    via = task[3] if len(task) > 3 else 'direct'
    from klepto import rounding
    res = {'counts': collections.Counter(), 'violations': [], 'samples': [], 'nontrivial': 0, 'outcomes': [],
           'config': task}
    deco = getattr(rounding, name)
    depth = {'simple_round': 0, 'shallow_round': 1, 'deep_round': None}[name]

    d = deco(tol=tol)
    # the configured decorator object itself may have been pickled / copied (it travels inside every cached function)
    if via == 'dill':
        import dill
        d = dill.loads(dill.dumps(d))
    elif via == 'deepcopy':
        d = copy.deepcopy(d)

    @d
    def ident(*args, **kwds):
        return (args, kwds)
    name = name if via == 'direct' else '%s[%s]' % (name, via)
    for kind, v in values(tier):
        for form, a, k in (('pos', (v,), {}), ('kw', (), {'x': v})):
            res['counts']['evaluations'] += 1
            if tol is None:
                want = (a, k)
            else:
                md = depth if depth is not None else None
                rr = lambda z: ref_round(z, tol, True, 0, None) if depth is None else ref_round(z, tol, True, 0, depth + 0) if depth else (round(z, tol) if isinstance(z, float) else z)
                if depth == 1:
                    rr = lambda z: ref_round(z, tol, True, 0, 1)
                want = (tuple(rr(z) for z in a), {n: rr(z) for n, z in k.items()})
            before = copy.deepcopy((a, k))
            try:
                got = ident(*a, **k)
            except Exception as e:
                res['violations'].append(_v('C12', {'rule': 'standalone-raises', 'decorator': name, 'exc': type(e).__name__, 'kind': kind},
                                            '%s(tol=%r): call %r raised %r' % (name, tol, (a, k), e),
                                            {'standalone': list(task), 'value': repr(v), 'form': form}))
                continue
            lenient = name.startswith('shallow_round') and (isinstance(v, dict) or is_nt(v)) and canon(got) == canon((a, k))
            # (the statement does not say whether the one-level decorator looks inside mappings /
            #  records: handing them over untouched is accepted, mangling them is not)
            if canon(got) != canon(want) and not lenient:
                res['violations'].append(_v('C12', {'rule': 'standalone-wrong-rounding', 'decorator': name, 'kind': kind,
                                                    'nonfloat_changed': canon(ref_strip(got)) != canon(ref_strip(want))},
                                            '%s(tol=%r): call %r handed %r to the function, reference rounding gives %r' % (name, tol, (a, k), got, want),
                                            {'standalone': list(task), 'value': repr(v), 'form': form}))
            if canon(before) != canon((a, k)):
                res['violations'].append(_v('C12', {'rule': 'caller-arguments-mutated', 'decorator': name, 'kind': kind},
                                            '%s(tol=%r): arguments %r were mutated to %r' % (name, tol, before, (a, k)),
                                            {'standalone': list(task), 'value': repr(v), 'form': form}))
            if canon(want) != canon((a, k)):
                res['nontrivial'] += 1
    res['counts'] = dict(res['counts'])
    res['config_summary'] = '%s tol=%r' % (name, tol)
    return res


def ref_strip(v):
    """replace every float by a token (to tell 'floats rounded wrongly' from 'non-float data changed')"""
    if isinstance(v, float):
        return 'F'
    if isinstance(v, dict):
        try:
            return type(v)((k, ref_strip(x)) for k, x in v.items())
        except Exception:
            return repr(v)
    if is_nt(v):
        return type(v)(*[ref_strip(x) for x in v])
    if isinstance(v, (list, tuple)):
        return type(v)(ref_strip(x) for x in v)
    if isinstance(v, (set, frozenset)):
        return type(v)(ref_strip(x) for x in v)
    return v


def _dispatch(task):
    if task[0] == 'standalone':
        return _standalone(task[1:])
    return _worker(task)


TOLS = (None, -1, 0, 1, 2)


def run(tier, seed):
    rep = Report('C12', tier, seed, 'exploration',
                 'tol x deep x keymap x decorator x argument structures (scalars, 7 container kinds, nested) x {positional, keyword, second parameter}; all pairs of calls; '
                 'oracle = independent recursive rounder; non-trivial = distinct rounded structures plus groups of >= 2 calls that round to the same structure (per configuration); standalone decorators: calls whose reference rounding changes something',
                 assumptions=['structures compared type-sensitively (2 and 2.0 are different keys under string/pickle keymaps)',
                              'sets whose repr depends on insertion order are excluded (a string key cannot canonicalise them)'])
    tasks = []
    for tol in TOLS:
        for deep in (False, True):
            for kmname in ('string', 'pickle'):
                tasks.append((tier, 'klepto', 'inf', tol, deep, kmname, True))
                tasks.append((tier, 'klepto', 'keygen', tol, deep, kmname, True))
            for mod, alg in DECOS:
                if (mod, alg) == ('klepto', 'inf'):
                    continue
                tasks.append((tier, mod, alg, tol, deep, 'string', True))
                if mod == 'safe':
                    tasks.append((tier, mod, alg, tol, deep, 'raw', True))
    for name in ('simple_round', 'shallow_round', 'deep_round'):
        for tol in TOLS:
            for via in ('direct', 'dill', 'deepcopy'):
                tasks.append(('standalone', tier, name, tol, via))
    for res in pool.run_configs(_dispatch, tasks, seed=seed):
        rep.merge(res)
    rep.extra['values'] = len(values(tier))
    return rep.finish()


def replay(doc):
    if 'standalone' in doc:
        res = _standalone(tuple(doc['standalone']))
    else:
        res = _worker(tuple(doc['task']))
    return [(v['sig'], v['detail']) for v in res['violations'] if v['replay'].get('value') == doc.get('value')]
