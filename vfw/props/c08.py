"""C08 syncmc: cache/archive synchronisation algebra (dump, load, sync, toggle).

Explicit-state BFS over cache mutations, direct archive mutations, dump/load/
sync (with and without keys), archived(on/off), open/drop on a real
klepto.archives.cache bound to a real archive; reference model = plain dicts
for the cache, archive A, a second archive B, plus `attached` / `parked`
pointers.
"""
import collections

from ..core import pool
from ..core.evidence import Report
from ..engines import archmc
from ..engines.archmc import BACKENDS, open_backend, contents, compare_contents, describe, same_value
from .e2 import _v, _enc, _dec

KEYS = ('k1', 'k2')
VALS = (1, 2)
# second value alphabet: falsy values (a stored None / 0 is still a stored value); chosen per configuration
VALSETS = {'ints': (1, 2), 'falsy': (None, 0)}


class SSys(object):
    def __init__(self, cfg):
        import klepto.archives as ka
        self.cfg = cfg
        self.backend = cfg['backend']
        self.root = pool.fresh_dir('s')
        self.A = open_backend(self.backend, self.root, 'arch', False)
        self.B = ka.dict_archive('other', cached=False)
        self.c = ka.cache(archive=self.A)
        self.null = BACKENDS[self.backend][0] == 'null'
        # model
        self.mc = {}
        self.mA = {}
        self.mB = {}
        self.attached = 'NULL' if self.null else 'A'
        self.parked = 'NULL'
        v = VALSETS[cfg.get('vals', 'ints')]
        if cfg.get('init') == 'conflict':
            # both sides hold k1 with different values
            self.c['k1'] = v[0]
            self.mc['k1'] = v[0]
            if not self.null:
                self.A['k1'] = v[1]
                self.mA['k1'] = v[1]

    def close(self):
        archmc.close(self.A)
        pool.rm(self.root)

    def model_arch(self, which):
        return {'A': self.mA, 'B': self.mB}.get(which)

    def _which(self, a):
        return 'A' if a is self.A else 'B' if a is self.B else 'NULL' if type(a).__name__ == 'null_archive' else '?'

    def state_key(self):
        """product of model state and implementation state: the implementation half holds what the cache
        is bound to *and what it has parked* (cache.__swap__), which no contents comparison shows"""
        f = lambda d: tuple(sorted(((k, repr(v)) for k, v in d.items())))
        c = self.c
        try:
            impl = (f(dict(dict.items(c))), self._which(c.__archive__), self._which(c.__swap__), bool(c.archived()))
        except Exception as e:
            impl = ('ERR', type(e).__name__)
        return (f(self.mc), f(self.mA), f(self.mB), self.attached, self.parked, impl,
                archmc.concrete_state(self.backend, self.root, self.A))


def ops(vals=VALS):
    VALS = vals
    out = []
    for k in KEYS:
        for v in VALS:
            out.append(('cset', k, v))
            out.append(('aset', k, v))
        out += [('cdel', k), ('cpop', k), ('adel', k), ('dumpk', k), ('loadk', k), ('asetdefault', k, VALS[0])]
    out += [('cupdate', (('k1', VALS[1]), ('k2', VALS[0]))), ('cclear',), ('dump',), ('load',), ('dumpk', 'k1', 'k2'), ('loadk', 'k2', 'absent'),
            # multi-key forms with the absent key first (a key the other side lacks must be skipped, not end the call)
            ('loadk', 'absent', 'k2'), ('loadk', 'k1', 'k2'), ('dumpk', 'absent', 'k1'), ('dumpk', 'k2', 'k1'),
            ('loadk', 'absent'), ('sync',), ('syncclear',), ('archived',), ('archived', False), ('archived', True),
            ('openB',), ('openA',), ('drop',), ('bset', 'k1', VALS[1]),
            # the `archive` property setter (what wrapper.archive(obj) uses), as opposed to open()
            ('setB',), ('setA',)]
    return out


def apply(S, op):
    """apply op to implementation and model; returns list of (sig, detail)"""
    out = []
    k = op[0]
    c = S.c
    base = {'engine': 'syncmc', 'backend': S.backend, 'op': k}

    def bad(rule, detail, **kw):
        sig = dict(base)
        sig['rule'] = rule
        sig.update(kw)
        out.append((sig, detail))

    att = S.model_arch(S.attached)           # model dict of the attached archive (None if null)
    exc = None
    ret = None
    want_exc = None
    want_ret = None
    lenient_valueerror = False
    try:
        if k == 'cset':
            c[op[1]] = op[2]
            S.mc[op[1]] = op[2]
        elif k == 'cdel':
            if op[1] in S.mc:
                del S.mc[op[1]]
            else:
                want_exc = KeyError
            del c[op[1]]
        elif k == 'cpop':
            if op[1] in S.mc:
                want_ret = S.mc.pop(op[1])
            else:
                want_exc = KeyError
            ret = c.pop(op[1])
        elif k == 'cupdate':
            S.mc.update(op[1])
            c.update(dict(op[1]))
        elif k == 'cclear':
            S.mc.clear()
            c.clear()
        elif k == 'aset':
            if not S.null:
                S.mA[op[1]] = op[2]
            S.A[op[1]] = op[2]
        elif k == 'asetdefault':
            # setdefault directly on the archive (a null archive stays empty and answers with the default)
            if not S.null:
                want_ret = S.mA.setdefault(op[1], op[2])
            else:
                want_ret = op[2]
            ret = S.A.setdefault(op[1], op[2])
        elif k == 'bset':
            S.mB[op[1]] = op[2]
            S.B[op[1]] = op[2]
        elif k == 'adel':
            if op[1] in S.mA:
                del S.mA[op[1]]
            else:
                want_exc = KeyError
            del S.A[op[1]]
        elif k == 'dump':
            if att is not None:
                att.update(S.mc)
            c.dump()
        elif k == 'dumpk':
            if att is not None:
                for q in op[1:]:
                    if q in S.mc:
                        att[q] = S.mc[q]
            c.dump(*op[1:])
        elif k == 'load':
            if att is not None:
                S.mc.update(att)
            c.load()
        elif k == 'loadk':
            if att is not None:
                for q in op[1:]:
                    if q in att:
                        S.mc[q] = att[q]
            c.load(*op[1:])
        elif k == 'sync':
            if att is not None:
                att.update(S.mc)
                S.mc.update(att)
            c.sync()
        elif k == 'syncclear':
            if att is not None:
                att.clear()
                att.update(S.mc)
            c.sync(clear=True)
        elif k == 'archived':
            if len(op) == 1:
                want_ret = S.attached != 'NULL'
                ret = c.archived()
            elif op[1]:
                if S.parked != 'NULL':
                    S.attached, S.parked = S.parked, 'NULL'
                elif S.attached == 'NULL':
                    lenient_valueerror = True
                c.archived(True)
            else:
                if S.attached != 'NULL':
                    S.attached, S.parked = 'NULL', S.attached
                c.archived(False)
        elif k in ('openA', 'openB', 'setA', 'setB'):
            which = k[-1]
            if which == 'A' and S.null:
                S.attached, S.parked = 'NULL', 'NULL'
            else:
                S.attached, S.parked = which, 'NULL'
            if k.startswith('open'):
                c.open(S.A if which == 'A' else S.B)
            else:
                c.archive = S.A if which == 'A' else S.B
        elif k == 'drop':
            if S.attached == 'NULL' and S.parked == 'NULL':
                lenient_valueerror = True
            S.attached, S.parked = 'NULL', 'NULL'
            c.drop()
        else:
            raise ValueError(op)
    except BaseException as e:
        if isinstance(e, (KeyboardInterrupt, SystemExit, MemoryError)):
            raise
        exc = e
    if want_exc is not None:
        if not isinstance(exc, want_exc):
            bad('no-keyerror', '%r: a dict raises KeyError, got %r' % (op, exc if exc is not None else ret))
    elif exc is not None:
        if not (lenient_valueerror and isinstance(exc, ValueError)):
            bad('raises', '%r raised %s: %s' % (op, type(exc).__name__, exc), observed=type(exc).__name__)
    elif want_ret is not None and ret != want_ret:
        bad('wrong-result', '%r returned %r, model %r' % (op, ret, want_ret))
    # contents of everything after every step
    for name, impl, model in (('cache', dict(dict.items(c)), S.mc), ('archive', contents(S.A), S.mA), ('second archive', contents(S.B), S.mB)):
        for p in compare_contents(impl, model, '%s after %r' % (name, op)):
            bad('contents', p, what=name)
    # a persistent archive as another connection sees it (what has really reached the store)
    if BACKENDS[S.backend][0] in archmc.PERSISTENT:
        try:
            h = open_backend(S.backend, S.root, 'arch', False)
            fc = contents(h)
            archmc.close(h)
        except Exception as e:
            fc = e
        for p in compare_contents(fc, S.mA, 'archive as seen by a fresh handle after %r' % (op,)):
            bad('contents', p, what='archive-through-fresh-handle')
    # which archive is attached
    try:
        a = c.archive
        impl_att = 'A' if a is S.A else 'B' if a is S.B else 'NULL' if type(a).__name__ == 'null_archive' else '?'
        if S.null and impl_att == 'A':
            impl_att = 'NULL'
        if impl_att != S.attached:
            bad('wrong-archive-attached', 'after %r the cache is bound to %s, model says %s' % (op, impl_att, S.attached))
        if bool(c.archived()) != (S.attached != 'NULL'):
            bad('archived-flag', 'archived() is %r, model attached=%s' % (c.archived(), S.attached))
    except Exception as e:
        bad('raises', 'reading cache.archive raised %r' % (e,), observed=type(e).__name__)
    return out


def nontrivial(S, op):
    k = op[0]
    if k in ('dump', 'load', 'sync', 'syncclear', 'dumpk', 'loadk'):
        return bool(S.mc) or bool(S.mA)
    return k in ('archived', 'openA', 'openB', 'drop', 'setA', 'setB')


def replay_hist(cfg, hist):
    S = SSys(cfg)
    for op in hist:
        apply(S, op)
    return S


def explore(task):
    cfg, max_depth, max_states = task
    res = {'counts': collections.Counter(), 'violations': [], 'samples': [], 'nontrivial': 0, 'outcomes': set(),
           'caps': [], 'config': cfg}
    name = '%s init=%s vals=%s' % (cfg['backend'], cfg.get('init', 'empty'), cfg.get('vals', 'ints'))
    S0 = SSys(cfg)
    seen = {S0.state_key()}
    S0.close()
    frontier = collections.deque([[]])
    res['counts']['states'] = 1
    capped = False
    nt = set()
    allops = ops(VALSETS[cfg.get('vals', 'ints')])
    while frontier:
        hist = frontier.popleft()
        if len(hist) >= max_depth:
            capped = True
            continue
        for op in allops:
            S = replay_hist(cfg, hist)
            pre = S.state_key()
            if nontrivial(S, op):
                nt.add((pre, op))
            found = apply(S, op)
            res['counts']['transitions'] += 1
            res['counts']['evaluations'] += 1
            res['outcomes'].add((op[0], bool(found)))
            if found:
                for sig, detail in found:
                    res['violations'].append(_v('C08', sig, '%s | %s | history %s' % (detail, name, hist),
                                                {'engine': 'syncmc', 'config': cfg, 'history': [list(o) for o in hist], 'op': list(op)}))
                res['counts']['pruned_after_finding'] += 1
                S.close()
                continue
            key = S.state_key()
            S.close()
            if key not in seen:
                if len(seen) >= max_states:
                    if not res['caps']:
                        res['caps'].append('state cap %d hit in %s' % (max_states, name))
                    continue
                seen.add(key)
                res['counts']['states'] += 1
                frontier.append(hist + [op])
                if len(res['samples']) < 1 and len(hist) >= 2:
                    res['samples'].append({'config': name, 'history': [list(o) for o in hist + [op]]})
    if capped:
        res['caps'].append('depth cap %d (no closure) in %s' % (max_depth, name))
    elif not res['caps']:
        res['counts']['configs_closed'] += 1
    res['nontrivial'] = len(nt)
    res['counts'] = dict(res['counts'])
    res['outcomes'] = sorted(map(repr, res['outcomes']))
    res['config_summary'] = name
    return res


def run(tier, seed):
    rule = ('BFS over cache mutations, direct archive mutations, dump/load/sync (with/without keys), archived on/off, open/drop on a real cache bound to a real archive, '
            '2 keys x 2 values so every who-wins conflict is reachable; non-trivial = dump/load/sync transitions with something to move, and every toggle/open/drop; distinct = (pre-state, op)')
    rep = Report('C08', tier, seed, 'model_checking', rule, assumptions=[
        'drop()/archived(True) with nothing to switch on: the statement is silent; ValueError or no-op are both accepted, state must be unchanged',
    ])
    cfgs = []
    backs = ['null', 'dict', 'file', 'dir', 'sql'] if tier == 'quick' else \
        ['null', 'dict', 'file', 'file-json', 'file-source', 'dir', 'dir-json', 'dir-source', 'dir-compressed', 'sql', 'sql-memory']
    for b in backs:
        for init in ('empty', 'conflict'):
            cfgs.append({'backend': b, 'init': init})
        if tier == 'thorough' or b in ('dict', 'dir', 'sql'):
            cfgs.append({'backend': b, 'init': 'conflict', 'vals': 'falsy'})
    tasks = []
    for c in cfgs:
        mem = BACKENDS[c['backend']][0] in ('mem', 'null')
        if tier == 'quick':
            tasks.append((c, 40 if mem else 3, 12000 if mem else 150))
        else:
            tasks.append((c, 40 if mem else 5, 20000 if mem else 2500))
    for res in pool.run_configs(explore, tasks, seed=seed):
        rep.merge(res)
    rep.extra['operation_alphabet'] = [list(o) for o in ops()]
    return rep.finish()


def replay(doc):
    cfg = doc['config']
    hist = [tuple(tuple(x) if isinstance(x, list) else x for x in o) for o in doc['history']]
    op = tuple(tuple(x) if isinstance(x, list) else x for x in doc['op'])
    S = replay_hist(cfg, hist)
    found = apply(S, op)
    S.close()
    return found
