"""E2 property checks: C03 (archives refine a dict), C04 (persistence), C08 (sync algebra)."""
import collections
import os
import pickle
import sys
import time

from ..core import pool
from ..core.evidence import Report
from ..engines import archmc
from ..engines.archmc import (BACKENDS, KEY_SETS, VALUE_SETS, UNENC, open_backend, model_apply, impl_apply,
                              same_value, contents, compare_contents, describe, concrete_state, location)


def _v(prop, sig, detail, replay):
    sig = dict(sig)
    sig['property'] = prop
    r = {'property': prop}
    r.update(replay)
    return {'sig': sig, 'detail': detail, 'replay': r}


# ---------------------------------------------------------------------------
# scenario

class ASys(object):
    """archive under test + a second archive stored under another name + dict models"""

    def __init__(self, cfg):
        self.cfg = cfg
        self.backend = cfg['backend']
        self.cached = cfg.get('cached', False)
        self.keys = cfg['keys']
        self.values = cfg['values']
        self.root = pool.fresh_dir('a')
        self.fam = BACKENDS[self.backend][0]
        self.ncopy = 0
        self.cwd0 = os.getcwd()
        if self.backend in archmc.RELNAME:
            os.chdir(self.root)      # a relative name means: relative to where the process was when it opened the store
        # the other archive: a neighbour whose name has the first one's as prefix
        self.other = open_backend(self.backend, self.root, 'arch2', False)
        self.om = {}
        if self.fam != 'null':
            nk = cfg.get('neighbour', (self.keys[2], self.keys[0]))
            for k, v in ((nk[0], self.values[0]), (nk[1], self.values[1])):
                self.other[k] = v
                self.om[k] = v
        self.a = open_backend(self.backend, self.root, 'arch', self.cached)
        self.m = {}
        self.last_mutable = None

    def close(self):
        archmc.close(self.a)
        archmc.close(self.other)
        if self.backend in archmc.RELNAME:
            os.chdir(self.cwd0)
        pool.rm(self.root)

    def state_key(self):
        """product state: dict model x concrete persistent state x the handle's own (hidden) state"""
        items = tuple(sorted(((type(k).__name__, describe(k), describe(v)) for k, v in self.m.items())))
        return (items, concrete_state(self.backend, self.root, self.a), impl_state(self.a, self.root))


def impl_state(a, root):
    """what the handle object itself carries and no contents comparison shows: its settings, an open
    sqlite transaction, the in-memory dict of a cache and which archives it is bound to / has parked"""
    out = []
    seen = 0
    while a is not None and seen < 3:
        seen += 1
        part = [type(a).__name__]
        st = getattr(a, '__state__', None)
        if isinstance(st, dict):
            part.append(tuple(sorted((k, describe(v).replace(root, '<root>')) for k, v in st.items())))
        conn = getattr(a, '_conn', None)
        if conn is not None and hasattr(conn, 'in_transaction'):
            part.append(('in_transaction', bool(conn.in_transaction)))
        if isinstance(a, dict):
            try:
                part.append(tuple(sorted((type(k).__name__, describe(k), describe(v)) for k, v in dict.items(a))))
            except Exception as e:
                part.append(('ERR', type(e).__name__))
        if type(a).__name__ == 'cache':
            part.append(('swap', type(a.__swap__).__name__))
            nxt = a.__archive__
        else:
            nxt = None
        out.append(tuple(part))
        a = nxt
    return tuple(out)


def key_ok_for_kw(k):
    return isinstance(k, str) and k.isidentifier()


def op_list(cfg, prop):
    k0, k1, k2 = cfg['keys']
    v0, v1 = cfg['values']
    U = UNENC
    if cfg.get('narrow'):
        # a dozen operations explored deep (state that an operation leaves behind in the handle -- an open transaction,
        # a stale listing -- only shows two or three operations later, or through another handle)
        ops = [('setitem', k0, v0), ('setitem', k1, v1), ('setitem', k0, v1), ('delitem', k0), ('pop', k1), ('clear',),
               ('update', ((k0, v0), (k2, v1))), ('update', ()), ('popitem',), ('setdefault', k2, v0), ('items',), ('len',),
               ('copyname',), ('eq_other',)]
        if BACKENDS[cfg['backend']][0] in archmc.PERSISTENT and not cfg.get('cached'):
            ops.append(('reopen',))
        if prop == 'C04':
            ops.append(('mutate',))
        return ops
    ops = []
    for k in (k0, k1, k2):
        for v in (v0, v1, U):
            ops.append(('setitem', k, v))
    for k in (k0, k1, k2):
        ops += [('getitem', k), ('delitem', k), ('contains', k), ('get', k), ('get', k, 'dflt'), ('pop', k),
                ('pop', k, 'dflt'), ('setdefault', k), ('setdefault', k, v0),
                # the default is (identical to) a value that may be stored: found-vs-default must not be inferred from the result
                ('pop', k, v0), ('get', k, v1)]
    ops += [('len',), ('iter',), ('keys',), ('values',), ('items',), ('popitem',), ('clear',)]
    # the rest of what a dict answers: too many arguments, repr, comparison with something that is not an archive
    ops += [('pop_toomany', k0), ('setdefault_toomany', k1), ('repr',), ('eq_foreign',)]
    for k in (k0, k1, k2):
        if not hasattr(k, '__iter__'):
            ops += [('popkeys_scalar', k), ('popkeys_scalar', k, 'd')]
    ops += [('popkeys', (k0, k1)), ('popkeys', (k1, k2)), ('popkeys', (k0, k1), 'd'), ('popkeys', (k2, k0), 'd'), ('popkeys', ()),
            ('popkeys', (k1, k0), v0),
            # a key listed twice: without a default the call must fail and remove nothing
            ('popkeys', (k0, k1, k0)), ('popkeys', (k1, k1), 'd')]
    if BACKENDS[cfg['backend']][1] == 'sql':
        # a second kind of value sqlite cannot store (OverflowError instead of an sqlite3 error)
        ops += [('setitem', k0, archmc.BIGINT), ('update', ((k1, v0), (k2, archmc.BIGINT))), ('setdefault', k2, archmc.BIGINT)]
    ops += [('update', ((k0, v0), (k1, v1))), ('update_pairs', ((k1, v0), (k2, v1))), ('update', ((k0, v1), (k2, U))), ('update', ())]
    if all(key_ok_for_kw(k) for k in (k1, k2)):
        ops.append(('update_kw', ((k1, v1), (k2, v0))))
    ops += [('copy',), ('copyname',), ('eq_other',)]
    if BACKENDS[cfg['backend']][0] in archmc.PERSISTENT and not cfg.get('cached'):
        ops.append(('reopen',))
        ops.append(('reopen_seed', ((k2, v1),)))
    if prop == 'C04':
        ops.append(('mutate',))
    return ops


def key_pre(S, k):
    if k in S.m:
        return 'present'
    a = getattr(S.a, 'archive', S.a)
    if getattr(a, '_fname', None) is not None and not S.cached:
        mine = ref_dirname(k)
        if mine is not None and any(ref_dirname(q) == mine for q in S.m):
            return 'alias-present'
    return 'absent'


def _flat(x):
    if isinstance(x, (tuple, list)):
        for y in x:
            for z in _flat(y):
                yield z
    else:
        yield x


def ref_dirname(key):
    """the directory name the *pinned* dir_archive gives a key (str(key) with '-' replaced by '_'; an md5 for a key that
    is itself a pickle) -- kept here, independently of the implementation, so that only the recorded aliasing
    ('a-b'/'a_b', 1/'1', (1,2)/'(1, 2)') is attributed to the known finding, not aliasing a change introduces"""
    import hashlib
    try:
        ispickle = key.startswith(b'\x80') and key.endswith(b'.')
    except Exception:
        ispickle = False
    if ispickle:
        return None          # named by a digest: never aliases another key of the alphabets
    return str(key).replace('-', '_')


def _alias_involved(S, touched):
    """does the operation touch a key whose directory name under the pinned naming scheme equals that of a
    *different* key that is present or touched by the same operation?"""
    a = getattr(S.a, 'archive', S.a)
    if getattr(a, '_fname', None) is None or S.cached:
        return False
    pool_keys = list(S.m.keys()) + list(touched)
    for t in touched:
        rt = ref_dirname(t)
        if rt is None:
            continue
        for q in pool_keys:
            if (type(q) is not type(t) or q != t) and ref_dirname(q) == rt:
                return True
    return False


def obs_class(r):
    return 'returns' if r[0] == 'ret' else r[1]


def apply_op(S, op, prop='C03'):
    """apply one operation to implementation and model; returns (list of (sig, detail), nontrivial?)"""
    out = []
    backend = S.backend
    base = {'engine': 'archmc', 'backend': backend, 'cached': bool(S.cached), 'op': op[0]}
    k = op[0]
    a = S.a
    touched = [op[1]] if k in ('setitem', 'getitem', 'delitem', 'contains', 'get', 'pop', 'setdefault', 'pop_toomany', 'setdefault_toomany', 'popkeys_scalar') else \
        list(op[1]) if k == 'popkeys' else [q for q, _ in op[1]] if k.startswith('update') else \
        [S.keys[1]] if k == 'mutate' else [S.keys[2]] if k == 'copyname' else [q for q, _ in op[1]] if k == 'reopen_seed' else []
    pres = [key_pre(S, q) for q in touched]
    pre = 'present' if 'present' in pres else ('alias-present' if 'alias-present' in pres else ('absent' if pres else '-'))
    nontrivial = pre != 'absent' and pre != '-'
    pre_model = dict(S.m)
    alias = _alias_involved(S, touched)
    unenc = any(isinstance(x, archmc.Unencodable) or (isinstance(x, int) and not isinstance(x, bool) and abs(x) >= 2 ** 63) for x in _flat(op[1:]))
    # a key with a path separator in it is touched by, or present during, the operation
    pathsep = any(isinstance(q, str) and os.sep in q for q in list(touched) + list(S.m.keys()))
    # a key longer than a file name may be (255 bytes) is touched by the operation
    longkey = any(isinstance(q, str) and len(q) > 240 for q in touched)

    def bad(rule, detail, **kw):
        sig = dict(base)
        sig['rule'] = rule
        sig['pre'] = pre
        sig['alias'] = alias
        sig['unenc'] = unenc
        sig['pathsep'] = pathsep
        sig.update(kw)
        out.append((sig, detail))

    if k in ('copy', 'copyname', 'eq_other', 'reopen', 'reopen_seed', 'mutate'):
        nontrivial = bool(S.m)
        try:
            _special(S, op, bad)
        except BaseException as e:
            if isinstance(e, (KeyboardInterrupt, SystemExit, MemoryError)):
                raise
            bad('special-op-raises', '%s raised %s: %s' % (op[0], type(e).__name__, e), observed=type(e).__name__)
    else:
        model_m = S.m if not S.cached or True else S.m
        eff_backend = 'dict' if S.cached else backend
        want = model_apply(model_m, op, eff_backend)
        got = impl_apply(a, op)
        if want[0] == 'exc':
            nontrivial = True
        if want == ('exc', 'KeyError'):
            if got[0] != 'exc' or got[1] != 'KeyError':
                bad('no-keyerror', '%r: a dict raises KeyError, the archive %s' % (
                    _opr(op), 'returned %s' % describe(got[1]) if got[0] == 'ret' else 'raised %s' % got[1]),
                    expected='KeyError', observed=obs_class(got))
        elif want == ('exc', 'ANY'):
            pass
        elif want == ('exc', 'TypeError'):
            if got[0] != 'exc' or got[1] != 'TypeError':
                bad('no-typeerror', '%r: a dict raises TypeError, the archive %s' % (
                    _opr(op), 'returned %s' % describe(got[1]) if got[0] == 'ret' else 'raised %s' % got[1]),
                    expected='TypeError', observed=obs_class(got))
        elif want == ('exc', 'ENCODE'):
            if got[0] != 'exc':
                bad('unencodable-accepted', '%r: storing a value the backend cannot encode did not raise' % (_opr(op),),
                    expected='exception', observed='returns')
        else:
            if got[0] == 'exc':
                bad('raises', '%r: a dict returns %s, the archive raised %s: %s' % (_opr(op), describe(want[1]), got[1], got[2]),
                    expected='returns', observed=got[1])
            elif want[1] is archmc.PopItemAny:
                item = got[1]
                if not (isinstance(item, tuple) and len(item) == 2 and item[0] in pre_model and same_value(item[1], pre_model[item[0]])):
                    bad('popitem-wrong-item', 'popitem returned %s, contents were %s' % (describe(item), describe(pre_model)),
                        expected='an item', observed='other')
                else:
                    if BACKENDS[eff_backend][0] != 'null':
                        S.m.pop(item[0])
            elif not same_value(got[1], want[1]):
                bad('wrong-result', '%r: a dict returns %s, the archive returned %s' % (_opr(op), describe(want[1]), describe(got[1])),
                    expected='value', observed='other-value')
    # contents, length, other archives -- after every step
    c = contents(S.a)
    probs = compare_contents(c, S.m, 'contents after %s' % (_opr(op),))
    for p in probs:
        what = 'raises:%s' % type(c).__name__ if isinstance(c, BaseException) else ('keys' if 'keys' in p.split(':')[1][:6] else 'value')
        # which keys are missing: only ones this very operation was meant to store, or others too
        lost = '-'
        if what == 'keys' and not isinstance(c, BaseException):
            missing = [q for q in S.m if not any(type(q) is type(r) and q == r for r in c)]
            extra_keys = [r for r in c if not any(type(q) is type(r) and q == r for q in S.m)]
            lost = 'touched-only' if missing and not extra_keys and all(any(type(q) is type(t) and q == t for t in touched) for q in missing) else 'other'
        bad('contents', p, what=what, lost=lost, longkey=longkey)
    if not probs:
        try:
            n = len(S.a)
            if n != len(S.m):
                bad('len', 'len() is %d, dict model has %d' % (n, len(S.m)))
        except Exception as e:
            bad('len', 'len() raised %r' % (e,))
    oc = contents(S.other)
    for p in compare_contents(oc, S.om, 'archive stored under another name, after %s' % (_opr(op),)):
        bad('other-archive-changed', p)
    if S.cached:
        arch = S.a.archive
        ac = contents(arch)
        if isinstance(ac, BaseException) or ac:
            bad('cache-op-touched-archive', 'plain dict operation %s on the cache changed the archive: %s' % (_opr(op), describe(ac)))
    return out, nontrivial


def _opr(op):
    return tuple(describe(x) for x in op)


def _special(S, op, bad):
    k = op[0]
    a = S.a
    fam = S.fam
    if k == 'copy':
        c = a.copy()
        cc = contents(c)
        for p in compare_contents(cc, S.m, 'copy()'):
            bad('copy-differs', p)
        if fam not in archmc.PERSISTENT and not S.cached and fam != 'null':
            # in-memory: the copy is independent
            c[S.keys[2]] = S.values[1]
            for p in compare_contents(contents(a), S.m, 'original after writing to copy()'):
                bad('copy-not-independent', p)
        archmc.close(c) if c is not a else None
    elif k == 'copyname':
        S.ncopy += 1
        name = 'copy%d' % S.ncopy
        if S.cached:
            c = a.copy()       # a cache is a dict: copy() takes no name
            c[S.keys[2]] = S.values[1]
            for p in compare_contents(contents(a), S.m, 'original after writing to the copy'):
                bad('copy-not-independent', p)
            return
        loc = location(S.backend, S.root, name)
        if fam == 'sqlmem':
            loc = name
        if fam in ('mem', 'null'):
            loc = name
        c = a.copy(loc)
        cm = dict(S.m)
        for p in compare_contents(contents(c), cm, 'copy(name)'):
            bad('copy-differs', p)
        try:
            eq, ne = (a == c), (a != c)
        except Exception as e:
            eq, ne = e, e
        if fam != 'null' and (eq is not True or ne is not False):
            bad('eq-wrong', 'archive == its fresh copy(name) gave %r (!= gave %r)' % (eq, ne), expected='equal')
        # the copy is independent afterwards
        kx, vx = S.keys[2], S.values[1]
        if kx in cm and same_value(cm[kx], vx):
            vx = S.values[0]
        c[kx] = vx
        if fam != 'null':
            cm[kx] = vx
        for p in compare_contents(contents(c), cm, 'copy(name) after a write to it'):
            bad('copy-differs', p)
        for p in compare_contents(contents(a), S.m, 'original after a write to copy(name)'):
            bad('copy-not-independent', p)
        eq, ne = (a == c), (a != c)
        if fam != 'null' and (eq is not False or ne is not True):
            bad('eq-wrong', 'archive == a copy with different contents gave %r (!= gave %r)' % (eq, ne), expected='different')
        archmc.close(c)
    elif k == 'eq_other':
        if S.cached:
            return
        want = _model_equal(S.m, S.om)
        eq, ne = (a == S.other), (a != S.other)
        if eq is not want or ne is not (not want):
            bad('eq-wrong', 'a == other gave %r, a != other gave %r; contents %s vs %s' % (eq, ne, describe(S.m), describe(S.om)),
                expected='equal' if want else 'different')
    elif k == 'reopen':
        archmc.close(a)
        S.a = open_backend(S.backend, S.root, 'arch', S.cached)
    elif k == 'reopen_seed':
        # a fresh handle from the public constructor with initial contents (dict=...): merged into what the store holds
        archmc.close(a)
        S.a = open_backend(S.backend, S.root, 'arch', S.cached, seed=op[1])
        S.m.update(dict(op[1]))
    elif k == 'mutate':
        # store a mutable object, mutate it afterwards: a persistent archive holds the store-time snapshot
        if fam not in archmc.PERSISTENT or S.cached:
            return
        if BACKENDS[S.backend][1] == 'sql':
            return
        obj = [1, 'm']
        a[S.keys[1]] = obj
        S.m[S.keys[1]] = [1, 'm']
        obj.append('later')


def _model_equal(m1, m2):
    if set(map(describe, m1)) != set(map(describe, m2)):
        return False
    return all(k in m2 and same_value(v, m2[k]) for k, v in m1.items())


# ---------------------------------------------------------------------------
# exploration

def replay_hist(cfg, hist, prop):
    S = ASys(cfg)
    for op in hist:
        apply_op(S, op, prop)
    return S


def explore(task):
    prop, cfg, max_depth, max_states = task
    res = {'counts': collections.Counter(), 'violations': [], 'samples': [], 'nontrivial': 0, 'outcomes': set(),
           'caps': [], 'config': cfg}
    name = cfg_name(cfg)
    try:
        S0 = ASys(cfg)
    except BaseException as e:
        res['violations'].append(_v(prop, {'engine': 'archmc', 'backend': cfg['backend'], 'rule': 'construction-raises',
                                           'observed': type(e).__name__},
                                    'constructing %s raised %r' % (name, e), {'engine': 'archmc', 'config': _cfgj(cfg), 'history': [], 'op': None}))
        return _fin(res, name)
    ops = op_list(cfg, prop)
    seen = {S0.state_key()}
    S0.close()
    frontier = collections.deque([[]])
    res['counts']['states'] = 1
    capped = False
    nontriv = set()
    extra = EXTRA.get(prop)
    while frontier:
        hist = frontier.popleft()
        if len(hist) >= max_depth:
            capped = True
            continue
        for op in ops:
            S = replay_hist(cfg, hist, prop)
            prekey = S.state_key()
            found, nt = apply_op(S, op, prop)
            res['counts']['transitions'] += 1
            res['counts']['evaluations'] += 1
            if nt:
                nontriv.add((prekey, _opr(op)))
            res['outcomes'].add((op[0], bool(found)))
            if extra is not None and not found:
                found = extra(S, cfg, hist, op, res)
            if found:
                for sig, detail in found:
                    res['violations'].append(_v(prop, sig, '%s | %s | history %s' % (detail, name, [list(_opr(o)) for o in hist]),
                                                {'engine': 'archmc', 'config': _cfgj(cfg), 'history': [_opj(o) for o in hist], 'op': _opj(op)}))
                res['counts']['pruned_after_finding'] += 1
                S.close()
                continue
            k = S.state_key()
            S.close()
            if k not in seen:
                if len(seen) >= max_states:
                    if not res['caps']:
                        res['caps'].append('state cap %d hit in %s' % (max_states, name))
                    continue
                seen.add(k)
                res['counts']['states'] += 1
                frontier.append(hist + [op])
                if len(res['samples']) < 1 and len(hist) >= 1:
                    res['samples'].append({'config': name, 'history': [list(_opr(o)) for o in hist + [op]]})
    if capped:
        res['caps'].append('depth cap %d (no closure) in %s' % (max_depth, name))
    elif not res['caps']:
        res['counts']['configs_closed'] += 1
    res['nontrivial'] = len(nontriv)
    return _fin(res, name)


def _fin(res, name):
    res['counts'] = dict(res['counts'])
    res['outcomes'] = sorted(map(repr, res['outcomes']))
    res['config_summary'] = name
    return res


def cfg_name(cfg):
    return '%s%s%s keys=%s values=%s' % (cfg['backend'], ' cached' if cfg.get('cached') else '', ' narrow' if cfg.get('narrow') else '',
                                       describe(cfg['keys']), describe(cfg['values']))


# JSON round trip of configs / ops (keys may be bytes / tuples / functions)
class _P(pickle.Pickler):
    def persistent_id(self, obj):
        return 'UNENC' if isinstance(obj, archmc.Unencodable) else None


class _U(pickle.Unpickler):
    def persistent_load(self, pid):
        return UNENC


def _enc(x):
    import io
    f = io.BytesIO()
    _P(f, protocol=2).dump(x)
    return f.getvalue().hex()


def _dec(s):
    import io
    return _U(io.BytesIO(bytes.fromhex(s))).load()


def _cfgj(cfg):
    return {'pickled': _enc(cfg), 'text': cfg_name(cfg)}


def _opj(op):
    return {'pickled': _enc(op), 'text': describe(_opr(op))}


EXTRA = {}


def c03_configs(tier):
    cfgs = []
    for backend, (fam, enc, kw) in BACKENDS.items():
        keysets = KEY_SETS['pickle'] if enc in ('pickle', 'mem') else KEY_SETS[enc]
        valsets = VALUE_SETS[enc]
        if backend in archmc.RELNAME or backend == 'file-source-bare':
            keysets, valsets = keysets[1:2], valsets[:1]
        elif backend in ('dir-compressed-memmode', 'dir-json-compressed', 'dir-json-memmode'):
            keysets, valsets = keysets[1:2], valsets[:1]
        elif tier == 'quick':
            if backend in ('dir-memmode', 'sql-memory'):
                keysets, valsets = keysets[:1], valsets[:1]
            elif fam == 'dir' and backend != 'dir':
                keysets, valsets = keysets[:2], valsets[:1]
            else:
                valsets = valsets[:2]
        for ks in keysets:
            for i, vs in enumerate(valsets):
                if tier == 'quick' and i > 0 and ks is not keysets[0]:
                    continue
                cfgs.append({'backend': backend, 'keys': ks, 'values': vs, 'cached': False})
        if tier == 'thorough' and fam == 'dir' and enc == 'pickle':
            cfgs.append({'backend': backend, 'keys': KEY_SETS['hostile'][0], 'values': valsets[0], 'cached': False})
        if backend in ('dir', 'file', 'sql', 'dict') or (tier == 'thorough' and fam in ('dir', 'file')):
            # long keys with a common head (a stringmap key for a long string argument)
            cfgs.append({'backend': backend, 'keys': KEY_SETS['long'][0], 'values': valsets[0], 'cached': False, 'neighbour': ('c', 'd')})
        cfgs.append({'backend': backend, 'keys': keysets[0], 'values': valsets[0], 'cached': True})
        if fam in archmc.PERSISTENT and backend not in archmc.RELNAME:
            cfgs.append({'backend': backend, 'keys': keysets[0], 'values': valsets[0], 'cached': False, 'narrow': True})
    return cfgs


def run_c03(tier, seed, prop='C03'):
    rule = ('BFS over dict-protocol operation sequences on the real archive vs a dict (per backend x colliding key triple x value pair); '
            'non-trivial = transition whose operation touches a present key, a key aliasing a present key, or that the model says must fail; '
            'distinct = (pre-state, operation)')
    rep = Report(prop, tier, seed, 'model_checking', rule, assumptions=[
        'state for deduplication is concrete: directory listing + file bytes / sqlite rows',
        'serialized=False (import-based) archives are explored in the natural environment of this sandbox: tmpfs timestamps with ns resolution, no bytecode written, \'\' on sys.path',
    ])
    depth, states = (3, 250) if tier == 'quick' else (5, 1200)       # (2500 states per configuration took about an hour)
    cfgs = c03_configs(tier) if prop == 'C03' else c04_configs(tier)
    tasks = []
    for c in cfgs:
        fam = BACKENDS[c['backend']][0]
        d, s = depth, states
        if fam in ('sql', 'sqlmem'):
            d = 3 if tier == 'quick' else 4
        if c.get('narrow'):
            d, s = (4, 600) if tier == 'quick' else (6, 2500)
        tasks.append((prop, c, d, s))
    for res in pool.run_configs(explore, tasks, seed=seed):
        rep.merge(res)
    rep.extra['operation_alphabet'] = [describe(_opr(o)) for o in op_list(cfgs[0], prop)]
    return rep.finish()


def c04_configs(tier):
    return [c for c in c03_configs(tier) if BACKENDS[c['backend']][0] in archmc.PERSISTENT and not c['cached']]


def run(prop, tier, seed):
    if prop == 'C03':
        return run_c03(tier, seed)
    if prop == 'C04':
        from . import c04
        return c04.run(tier, seed)
    if prop == 'C08':
        from . import c08
        return c08.run(tier, seed)


def replay(doc):
    prop = doc['property']
    if doc.get('engine') == 'syncmc':
        from . import c08
        return c08.replay(doc)
    if prop == 'C04':
        from . import c04  # registers EXTRA
    cfg = _dec(doc['config']['pickled'])
    hist = [_dec(o['pickled']) for o in doc['history']]
    if doc.get('op') is None:
        try:
            ASys(cfg).close()
            return []
        except BaseException as e:
            return [({'rule': 'construction-raises'}, repr(e))]
    op = _dec(doc['op']['pickled'])
    S = replay_hist(cfg, hist, prop)
    found, _ = apply_op(S, op, prop)
    extra = EXTRA.get(prop)
    if extra is not None and not found:
        found = extra(S, cfg, hist, op, {'counts': collections.Counter()})
    S.close()
    return found
