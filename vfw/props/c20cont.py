"""C20: differential continuation check at every dill round trip.

For a transition `reclone` reached by history h, every continuation c of length
<= L is run (a) on a replica built by replaying h (the original) and (b) on a
replica built by replaying h + reclone (the clone), each in its own scratch
store, and the observation vectors (results, info(), resident keys) are compared
step by step.
"""
import itertools

from ..engines import cachemc
from .e1monitors import _sig

DEPTH = {'n': 1}


def _obs(S, ev):
    tr = cachemc.apply_event(S, ev, ())
    # the RR chooser picks index 0 on both sides; the resident-key order is part of the observation
    # what the step returned / raised, the statistics, the resident keys in order, and where the archive side stands
    # (archiving on or off, contents of the attached and of the parked archive)
    fr = lambda d: None if d is None else tuple(sorted((cachemc.sr(k), cachemc.sr(v)) for k, v in d.items()))
    return (tr.obs if tr.exc is None else ('exc', type(tr.exc).__name__), tuple(tr.post.info),
            tuple(map(repr, tr.post.mem.keys())), tuple(tr.post.stats or ()),
            bool(tr.post.archived), fr(tr.post.arch), fr(tr.post.swap))


def continuation_check(cfg, hist, ev, script, S, tr, evs):
    if ev[0] != 'reclone' or tr.exc is not None:
        return []
    out = []
    conts = [e for e in evs if e[0] not in ('reclone', 'redec')]
    L = DEPTH['n']
    seqs = []
    for n in range(1, L + 1):
        seqs.extend(itertools.product(conts, repeat=n))
    for seq in seqs:
        A = cachemc.replay(cfg, hist)
        B = cachemc.replay(cfg, hist + [(ev, script)])
        try:
            for i, e in enumerate(seq):
                oa = _obs(A, e)
                ob = _obs(B, e)
                if oa != ob:
                    out.append((_sig(cfg, 'C20', 'continuation-differs', event=e[0]),
                                'after the round trip, continuation %r step %d: original %r, clone %r' % (
                                    [list(x) for x in seq], i, oa, ob)))
                    break
        finally:
            A.close()
            B.close()
        if out:
            break
    return out
