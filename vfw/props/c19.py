"""C19: validate / isvalid agree with Python's own argument binding."""
import collections
import functools
import inspect
import itertools

from ..core import pool
from ..core.evidence import Report
from ..engines import callmc
from ..engines.callmc import Sig
from .e5 import _v, spec_list, call_list, HOSTILE


def callables(spec, tier):
    """(name, callable, counter) for every form of one signature"""
    names = spec[5] if len(spec) > 5 else None
    plain = Sig(*spec[:5], names=names)
    meth = Sig(*spec[:5], method=True, names=names)
    out = []
    f = plain.compile()
    out.append(('function', f, f.CALLS))
    g = meth.compile()
    cls = callmc.holder_class({'f': g})
    out.append(('boundmethod', cls().f, g.CALLS))
    h = meth.compile()
    cls2 = callmc.holder_class({'__call__': h})
    out.append(('callable-instance', cls2(), h.CALLS))
    # a callable object that carries ordinary attributes named like a partial's (a job / command object storing its
    # own `args` and `keywords`): it is not a partial, its __call__ signature is what binds
    h2 = meth.compile()
    cls3 = callmc.holder_class({'__call__': h2})
    job = cls3()
    job.args = (10, 20)
    job.keywords = {'a': 5, 'zz': 6}
    out.append(('callable-instance(args attr)', job, h2.CALLS))
    # a wrapper with its own, wider signature around the function (functools.wraps sets __wrapped__): what binds is the
    # wrapper's (*args, **kwds), whatever the wrapped function would accept
    f3 = plain.compile()
    calls3 = [0]

    def wide(*args, **kwds):
        calls3[0] += 1
        return None
    functools.update_wrapper(wide, f3)
    out.append(('wraps(*args,**kwds)', wide, calls3))
    f4 = plain.compile()
    calls4 = [0]

    def narrow(a):
        calls4[0] += 1
        return None
    functools.update_wrapper(narrow, f4)
    out.append(('wraps(a)', narrow, calls4))
    # partials: 0-2 positionals x 0-1 keywords
    kwn = (tuple(names) if names else ('a', 'b')) + ('k', 'z')
    for npos in (0, 1, 2):
        for kw in (None,) + kwn:
            if npos == 0 and kw is None:
                continue
            if tier == 'quick' and npos == 2 and kw not in (None, 'k'):
                continue
            f2 = plain.compile()
            args = (1, 2)[:npos]
            kwd = {kw: 2} if kw else {}
            out.append(('partial(f%s%s)' % (''.join(', %d' % a for a in args), ', %s=2' % kw if kw else ''),
                        functools.partial(f2, *args, **kwd), f2.CALLS))
            if kw and (npos or tier == 'thorough'):
                # the same partial with the keyword fixed to None / 0: a value is a value, whatever its truth
                for val in (None, 0):
                    f3 = plain.compile()
                    out.append(('partial(f%s, %s=%r)' % (''.join(', %d' % a for a in args), kw, val),
                                functools.partial(f3, *args, **{kw: val}), f3.CALLS))
    return out


def binds(c, a, kw):
    """ground truth: really call the (side-effect free, never raising) generated function"""
    try:
        c(*a, **dict(kw))
        return True
    except TypeError:
        return False


def binds_inspect(c, a, kw):
    try:
        inspect.signature(c).bind(*a, **dict(kw))
        return True
    except (TypeError, ValueError):     # ValueError: a partial that can never be called
        return False


def cause(c, a, kw, expected):
    """cause class of a disagreement (used in violation signatures)"""
    try:
        sig = inspect.signature(c)
    except (TypeError, ValueError):
        return 'no-signature'
    kwonly = [p for p in sig.parameters.values() if p.kind == p.KEYWORD_ONLY]
    base = c.func if isinstance(c, functools.partial) else c
    try:
        real_kwonly = inspect.getfullargspec(base).kwonlyargs
    except TypeError:
        real_kwonly = []
    if real_kwonly:
        return 'keyword-only-parameter'
    if isinstance(c, functools.partial):
        return 'partial'
    return 'other'


def _worker(task):
    tier, spec = task
    import klepto
    from klepto import isvalid, validate
    res = {'counts': collections.Counter(), 'violations': [], 'samples': [], 'nontrivial': 0, 'outcomes': [],
           'config': spec}
    calls = call_list(tier, False, spec)
    sigtext = Sig(*spec[:5], names=spec[5] if len(spec) > 5 else None).text
    for name, c, counter in callables(spec, tier):
        res['counts']['programs'] += 1
        seen = set()
        for a, kw in calls:
            want = binds(c, a, kw)
            if name == 'function' and binds_inspect(c, a, kw) is not want:
                raise RuntimeError('harness: inspect.signature and the interpreter disagree on %s %r %r' % (sigtext, a, kw))
            n0 = counter[0]
            try:
                got = isvalid(c, *a, **dict(kw))
            except BaseException as e:
                got = 'raised %s' % type(e).__name__
            try:
                validate(c, *a, **dict(kw))
                vgot = True
            except TypeError:
                vgot = False
            except BaseException as e:
                vgot = 'raised %s' % type(e).__name__
            called = counter[0] - n0
            res['counts']['evaluations'] += 1
            if want:
                res['counts']['binding_calls'] += 1
            if (want, len(a), tuple(sorted(k for k, _ in kw))) not in seen:
                seen.add((want, len(a), tuple(sorted(k for k, _ in kw))))
                res['nontrivial'] += 1
            if called:
                res['violations'].append(_v('C19', {'rule': 'function-called', 'form': name.split('(')[0]},
                                            '%s [%s]: isvalid/validate called the function for %r %r' % (sigtext, name, a, kw),
                                            {'spec': spec, 'form': name, 'call': [a, kw]}))
            if got is not want or vgot is not want:
                res['violations'].append(_v('C19', {'rule': 'disagrees-with-python', 'python_binds': want,
                                                    'cause': cause(c, a, kw, want), 'form': name.split('(')[0]},
                                            '%s [%s]: call %r %r: Python binds=%s, isvalid=%s, validate %s' % (
                                                sigtext, name, a, kw, want, got,
                                                'passes' if vgot is True else ('raises TypeError' if vgot is False else vgot)),
                                            {'spec': spec, 'form': name, 'call': [a, kw]}))
            if len(res['samples']) < 2 and want and kw and a:
                res['samples'].append({'signature': sigtext, 'form': name, 'call': [list(a), dict(kw)], 'binds': want, 'isvalid': got})
    res['counts'] = dict(res['counts'])
    res['config_summary'] = sigtext
    return res


class _H(object):
    @staticmethod
    def s(a, b=1):
        return a

    @classmethod
    def c(cls, a, b=1):
        return a


def _w_uninspectable(task):
    """callables whose signature klepto cannot (or need not) read from Python source: builtin functions and types, partials
    of them, static / class methods taken from the class and from its __dict__, partials of partials, lambdas.  isvalid
    answers for all of them (for the uninspectable ones by trying the call, which is harmless here: they are pure);
    validate() refuses uninspectable callables by design ("not a Python function") and is not judged on those.
    Ground truth: the call itself (TypeError at these arities is always a binding failure)"""
    from klepto import isvalid
    P = functools.partial
    res = {'counts': collections.Counter(), 'violations': [], 'samples': [], 'nontrivial': 0, 'outcomes': [], 'config': 'uninspectable'}
    cases = [
        ('partial(min, 0)', P(min, 0), [((1,), {}), ((1, 2), {})]),
        ('partial(max, 3, key=abs)', P(max, 3, key=abs), [((1,), {}), ((-5, 2), {})]),
        ('partial(pow, 2)', P(pow, 2), [((3,), {}), ((), {}), ((3, 5, 7), {})]),
        ('partial(divmod, 7)', P(divmod, 7), [((2,), {}), ((), {}), ((2, 3), {})]),
        ('partial(int, base=2)', P(int, base=2), [(('101',), {}), (('1', '0', '1'), {})]),
        ('int', int, [(('3',), {}), ((), {}), (('3', 10), {}), ((1, 2, 3), {})]),
        ('dict', dict, [((), {}), ((), {'a': 1}), ((1, 2), {})]),
        ('float', float, [((), {}), (('1.5',), {}), ((1, 2), {})]),
        ('str', str, [((), {}), ((1,), {})]),
        ('list', list, [((), {}), (((1, 2),), {}), ((1, 2), {})]),
        ('tuple', tuple, [((), {}), ((1, 2), {})]),
        ('len', len, [(((1,),), {}), ((), {}), ((1, 2), {})]),
        ('pow', pow, [((2, 3), {}), ((2,), {}), ((2, 3, 5), {})]),
        ('divmod', divmod, [((7, 2), {}), ((7,), {})]),
        ('min', min, [((1, 2), {}), ((), {})]),
        ('staticmethod object', _H.__dict__['s'], [((1,), {}), ((), {}), ((1, 2, 3), {})]),
        ('staticmethod via class', _H.s, [((1,), {}), ((), {}), ((1, 2, 3), {}), ((), {'a': 1, 'b': 2})]),
        ('classmethod via class', _H.c, [((1,), {}), ((), {}), ((1, 2, 3), {})]),
        ('classmethod via instance', _H().c, [((1,), {}), ((), {})]),
        ('partial(partial(staticmethod, 1))', P(P(_H.s, 1)), [((), {}), ((2,), {}), ((2, 3), {})]),
        ('partial(partial(staticmethod), 1, b=2)', P(P(_H.s), 1, b=2), [((), {}), ((), {'b': 3}), ((2,), {})]),
        ('lambda a, b=2', (lambda a, b=2: a), [((1,), {}), ((), {}), ((1, 2, 3), {}), ((), {'b': 1})]),
    ]
    # the same callable asked twice, its signature changed in between (defaults added / removed on the function, also behind
    # a bound method and under a partial; a partial's own keywords changed): every answer is about the callable as it is now
    def mk():
        def g(x, y):
            return x
        return g

    def mk2():
        def g(x, *, k=1):
            return x
        return g
    g1, g2, g3 = mk(), mk2(), mk()

    class _B(object):
        def m(self, x, y):
            return x
    b = _B()
    p3 = P(g3, 1)
    p4 = P(mk(), 1)
    staged = [
        ('function, then __defaults__ = (5,)', g1, [((1,), {})], lambda: setattr(g1, '__defaults__', (5,))),
        ('function with k=1, then __kwdefaults__ = None', g2, [((1,), {})], lambda: setattr(g2, '__kwdefaults__', None)),
        ('bound method, then __defaults__ = (5,) on its function', b.m, [((1,), {})], lambda: setattr(_B.m, '__defaults__', (5,))),
        ('partial(g, 1), then __defaults__ = (5,) on g', p3, [((), {})], lambda: setattr(g3, '__defaults__', (5,))),
        ('partial(g, 1), then its keywords get y=2', p4, [((), {})], lambda: p4.keywords.update(y=2) if hasattr(p4.keywords, 'update') else None),
    ]
    for name, c, calls, change in staged:
        res['counts']['programs'] += 1
        for stage in ('before', 'after'):
            if stage == 'after':
                change()
            for a, kw in calls:
                try:
                    c(*a, **kw)
                    want = True
                except TypeError:
                    want = False
                try:
                    got = isvalid(c, *a, **kw)
                except BaseException as e:
                    got = 'raised %s' % type(e).__name__
                res['counts']['evaluations'] += 1
                res['nontrivial'] += 1
                if got is not want:
                    res['violations'].append(_v('C19', {'rule': 'disagrees-with-python', 'python_binds': want, 'cause': 'signature-changed-between-calls',
                                                        'form': name.split(',')[0]},
                                                '%s (%s the change): call %r %r: Python binds=%s, isvalid=%s' % (name, stage, a, kw, want, got),
                                                {'form': name, 'call': [list(a), dict(kw)], 'task': 'uninspectable'}))
    for name, c, calls in cases:
        res['counts']['programs'] += 1
        for a, kw in calls:
            try:
                c(*a, **kw)
                want = True
            except TypeError:
                want = False
            except Exception:
                want = True
            try:
                got = isvalid(c, *a, **kw)
            except BaseException as e:
                got = 'raised %s' % type(e).__name__
            res['counts']['evaluations'] += 1
            res['nontrivial'] += 1
            if want:
                res['counts']['binding_calls'] += 1
            if got is not want:
                res['violations'].append(_v('C19', {'rule': 'disagrees-with-python', 'python_binds': want, 'cause': 'uninspectable-or-unusual-callable',
                                                    'form': name.split('(')[0]},
                                            '%s: call %r %r: Python binds=%s, isvalid=%s' % (name, a, kw, want, got),
                                            {'form': name, 'call': [list(a), dict(kw)], 'task': 'uninspectable'}))
        if len(res['samples']) < 1:
            res['samples'].append({'callable': name, 'calls': [[list(a), dict(kw)] for a, kw in calls]})
    res['counts'] = dict(res['counts'])
    res['config_summary'] = 'builtin functions / types, partials of builtins, static and class methods'
    return res


def _dispatch(task):
    if task[0] == 'uninspectable':
        return _w_uninspectable(task)
    return _worker(task)


def run(tier, seed):
    rep = Report('C19', tier, seed, 'exploration',
                 'signature grammar x {function, bound method, callable instance, partials fixing 0-2 positionals x 0-1 keywords} x call forms; '
                 'oracle: the interpreter (real call of a stub); non-trivial = distinct (binds?, #positionals, keyword-name set) classes per callable',
                 assumptions=['ground truth = really calling the generated (side-effect free) function; TypeError <=> binding failed; cross-checked against inspect.signature().bind for plain functions (inspect is inexact for partials and for a keyword named like a bound first parameter)'])
    specs = spec_list(tier)
    for res in pool.run_configs(_dispatch, [(tier, s) for s in specs] + [('uninspectable', tier)], seed=seed):
        rep.merge(res)
    rep.extra['signatures'] = len(specs)
    return rep.finish()


def replay(doc):
    from klepto import isvalid, validate
    spec = tuple(tuple(x) if isinstance(x, list) else x for x in doc['spec'])
    a, kw = doc['call']
    a = tuple(a)
    kw = tuple((k, v) for k, v in kw)
    out = []
    for name, c, counter in callables(spec, 'thorough'):
        if name != doc['form']:
            continue
        want = binds(c, a, kw)
        got = isvalid(c, *a, **dict(kw))
        print('python binds=%s isvalid=%s' % (want, got))
        if got is not want or counter[0]:
            out.append(({'rule': 'disagrees-with-python'}, 'binds=%s isvalid=%s calls=%d' % (want, got, counter[0])))
    return out
