"""C11: ignored arguments never influence the key; all others still do."""
import collections
import itertools

from ..core import pool
from ..core.evidence import Report
from ..engines import callmc
from ..engines.callmc import Sig, freeze
from .e5 import _v, spec_list, call_list

NULLTOKEN = '<NULL>'


def ignore_specs(tier, method):
    atoms = ['a', 'b', 'k', 'z', 0, 1, 2, '*', '**']
    maxn = 2 if tier == 'quick' else 3
    out = []
    for n in range(1, maxn + 1):
        for c in itertools.combinations(atoms, n):
            out.append(c)
    if tier == 'thorough':
        out += [('c',), ('m',), (3,), ('c', '**'), ('m', '**'), (3, '*')]
    return out


def masked(sig, bound, ign, selfslot=False):
    """reference semantics of `ignore` on what Python bound (bound = tuple of (name, value)).
    selfslot: the instance of a method is not ignored by name, so it occupies positional index 0
    (index 0 selects the instance, index 1 the first declared parameter, ...)"""
    d = collections.OrderedDict(bound)
    if selfslot:
        named = ['self'] + list(sig.pos)
    else:
        d.pop('self', None)
        named = list(sig.pos)
    args = list(d.get('*', ()))
    kw = dict(d.get('**', ()))
    names = [i for i in ign if isinstance(i, str)]
    idx = [i for i in ign if isinstance(i, int)]
    for n in names:
        if n in ('*', '**'):
            continue
        if n in named or n in sig.kwonly_names:
            d[n] = NULLTOKEN
        elif n in kw:
            kw[n] = NULLTOKEN
    for i in idx:
        if i < len(named):
            d[named[i]] = NULLTOKEN
        elif i - len(named) < len(args):
            args[i - len(named)] = NULLTOKEN
    if '*' in names:
        args = []
    if '**' in names:
        kw = {}
    out = [(n, d[n]) for n in list(named) + list(sig.kwonly_names)]   # (with selfslot: 'self' first)
    out.append(('*', tuple(args)))
    out.append(('**', tuple(sorted(kw.items()))))
    return tuple(out)


def _worker(task):
    tier, spec = task
    import klepto
    import klepto.keymaps as km
    res = {'counts': collections.Counter(), 'violations': [], 'samples': [], 'nontrivial': 0, 'outcomes': [],
           'config': spec}
    calls = call_list(tier, False, None)
    if tier == 'thorough':
        calls = [c for c in calls if len(c[0]) <= 3]
    plain = Sig(*spec[:5])
    meth = Sig(*spec[:5], method=True)
    sigtext = plain.text
    kms = [('keymap()', lambda: km.keymap()), ('stringmap(flat=False)', lambda: km.stringmap(flat=False))]
    if tier == 'thorough':
        kms.append(('picklemap(pickle)', lambda: km.picklemap(serializer='pickle')))
    forms = ['function', 'method', 'method-noself'] + (['partial(boundmethod,1)'] if plain.npos >= 1 else [])
    for form in forms:
        # bind every call once
        ref = plain.compile() if form == 'function' else meth.compile()
        inst = None
        bound = []
        if form == 'partial(boundmethod,1)':
            import functools
            # the partial fixes the first declared parameter: what remains is the signature without it
            rest = Sig(plain.npos - 1, min(plain.ndef, plain.npos - 1), plain.varargs, plain.kwonly, plain.varkw,
                       names=plain.pos[1:] if plain.npos > 1 else None)
            rest.pos = plain.pos[1:]
            refp = functools.partial(callmc.holder_class({'f': meth.compile()})().f, 1)
        for (a, kw) in calls:
            if form == 'partial(boundmethod,1)':
                if plain.pos[0] in dict(kw):
                    continue
                b = callmc.bind_by_call(refp, a, kw)
                if b is not None:
                    b = tuple(x for x in b if x[0] not in ('self', plain.pos[0]))
                    bound.append(((a, kw), b))
                continue
            args = a if form == 'function' else (None,) + a
            b = callmc.bind_by_call(ref, args, kw)
            if b is not None:
                bound.append(((a, kw), b))
        variants = [(ign, ign, kmname, mk, None) for ign in ignore_specs(tier, form == 'method') for kmname, mk in kms]
        if form == 'function':
            # the specification given as a (mutable) set or list object: it is the caller's, and it is read at every key
            for ign in ignore_specs(tier, False):
                if ('*' in ign or '**' in ign) and len(ign) <= 2:
                    variants.append((ign, set(ign), kms[0][0] + ' ignore given as a set', kms[0][1], None))
                    variants.append((ign, list(ign), kms[0][0] + ' ignore given as a list', kms[0][1], None))
        if form == 'function' and plain.npos >= 1:
            # every one of the twelve decorator classes, with `ignore` given as a bare name / index instead of a tuple
            import klepto.safe
            for mod in (klepto, klepto.safe):
                for alg in ('no', 'inf', 'lfu', 'lru', 'mru', 'rr'):
                    for bare in (0, 1, 'a', '*', '**'):
                        variants.append(((bare,), bare, kms[0][0] if mod is klepto else kms[1][0], kms[0][1] if mod is klepto else kms[1][1],
                                         (mod, alg)))
                    # ... and with the decorator object rebuilt from itself before it is applied (copy.copy / a pickle round
                    # trip go through the decorator's __reduce__): the rebuilt decorator has the same ignore specification
                    for via in ('copy', 'pickle'):
                        for bare in ('a', (0,)):
                            variants.append(((bare,) if not isinstance(bare, tuple) else bare, bare,
                                             kms[0][0] if mod is klepto else kms[1][0], kms[0][1] if mod is klepto else kms[1][1],
                                             (mod, alg, via)))
        for ign, ign_arg, kmname, mk, deco in variants:
            if True:
                if deco is not None:
                    f = plain.compile()
                    mod, alg = deco[:2]
                    via = deco[2] if len(deco) > 2 else None
                    kw = {} if alg in ('no', 'inf') else {'maxsize': 100000}
                    D = getattr(mod, alg + '_cache')(keymap=mk(), ignore=ign_arg, **kw)
                    if via == 'copy':
                        import copy
                        D = copy.copy(D)
                    elif via == 'pickle':
                        import pickle
                        D = pickle.loads(pickle.dumps(D))
                    W = D(f)
                    prefix = ()
                    counter = f.CALLS
                    kmname = '%s %s.%s_cache(ignore=%r)%s' % (kmname, mod.__name__, alg, ign_arg, ' rebuilt by %s' % via if via else '')
                elif form == 'partial(boundmethod,1)':
                    import functools
                    g = meth.compile()
                    pm = functools.partial(callmc.holder_class({'f': g})().f, 1)
                    W = klepto.inf_cache(keymap=mk(), ignore=ign)(pm)
                    prefix = ()
                    counter = g.CALLS
                elif form == 'function':
                    f = plain.compile()
                    W = klepto.inf_cache(keymap=mk(), ignore=ign_arg)(f)
                    prefix = ()
                    counter = f.CALLS
                else:
                    g = meth.compile()
                    W = klepto.inf_cache(keymap=mk(), ignore=(('self',) + ign) if form == 'method' else ign)(g)
                    cls = callmc.holder_class({'f': W})
                    prefix = (cls(),)
                    counter = g.CALLS
                res['counts']['programs'] += 1
                groups = collections.OrderedDict()
                bykey = {}
                for (a, kw), b in bound:
                    res['counts']['evaluations'] += 1
                    mb = masked(rest if form == 'partial(boundmethod,1)' else plain, b, ign, selfslot=(form == 'method-noself'))
                    try:
                        key = W.key(*(prefix + a), **dict(kw))
                    except Exception as e:
                        res['violations'].append(_v('C11', {'rule': 'key-raises', 'exc': type(e).__name__, 'form': form},
                                                    '%s ignore=%r: key(%r, %r) raised %r' % (sigtext, ign, a, kw, e),
                                                    {'spec': spec, 'form': form, 'ignore': list(ign), 'keymap': kmname, 'calls': [[a, kw]]}))
                        continue
                    fk = freeze(key)
                    g0 = groups.setdefault(mb, (fk, (a, kw), []))
                    g0[2].append((a, kw))
                    if g0[0] != fk:
                        res['violations'].append(_v('C11', {'rule': 'ignored-argument-influences-key', 'form': form,
                                                            'cause': _cause(plain, ign)},
                                                    '%s [%s] ignore=%r %s: calls %r and %r differ only in ignored arguments (masked binding %r) but get keys %r / %r' % (
                                                        sigtext, form, ign, kmname, g0[1], (a, kw), mb, g0[0], fk),
                                                    {'spec': spec, 'form': form, 'ignore': list(ign), 'keymap': kmname, 'calls': [g0[1], (a, kw)]}))
                    o = bykey.setdefault(fk, (mb, (a, kw)))
                    if o[0] != mb:
                        res['violations'].append(_v('C11', {'rule': 'non-ignored-argument-lost', 'form': form,
                                                            'cause': _cause(plain, ign)},
                                                    '%s [%s] ignore=%r %s: calls %r and %r differ in a non-ignored argument (%r vs %r) but share key %r' % (
                                                        sigtext, form, ign, kmname, o[1], (a, kw), o[0], mb, fk),
                                                    {'spec': spec, 'form': form, 'ignore': list(ign), 'keymap': kmname, 'calls': [o[1], (a, kw)]}))
                res['nontrivial'] += sum(1 for g0 in groups.values() if len(g0[2]) >= 2)
                # through the cache: one evaluation per masked binding
                if deco is None or deco[1] != 'no':
                    try:
                        n0 = counter[0]
                        for (a, kw), b in bound:
                            W(*(prefix + a), **dict(kw))
                        evals = counter[0] - n0
                        if evals != len(groups) and not res['violations']:
                            res['violations'].append(_v('C11', {'rule': 'reevaluated-for-ignored-argument', 'form': form,
                                                                'cause': _cause(plain, ign)},
                                                        '%s [%s] ignore=%r %s: %d distinct masked bindings but %d evaluations' % (
                                                            sigtext, form, ign, kmname, len(groups), evals),
                                                        {'spec': spec, 'form': form, 'ignore': list(ign), 'keymap': kmname, 'calls': []}))
                    except TypeError:
                        pass
                if len(res['samples']) < 2:
                    for mb, g0 in groups.items():
                        if len(g0[2]) >= 3:
                            res['samples'].append({'signature': sigtext, 'form': form, 'ignore': list(ign), 'keymap': kmname,
                                                   'calls_sharing_one_entry': [list(c) for c in g0[2][:4]]})
                            break
    res['counts'] = dict(res['counts'])
    res['config_summary'] = sigtext
    return res


def _cause(sig, ign):
    if '**' in ign and sig.kwonly_names:
        return "'**'-with-keyword-only-parameter"
    return 'other'


def _w_longnames(task):
    """parameters with real (multi-character) names, ignore given as one bare name, one bare index, or a tuple; the
    decorator used directly or rebuilt from itself (copy, deepcopy, pickle, dill) before it is applied -- for each of the
    twelve classes.  A bare string is a name, never a sequence of one-letter names"""
    import copy
    import pickle
    import dill
    import klepto
    import klepto.safe
    import klepto.keymaps as km
    res = {'counts': collections.Counter(), 'violations': [], 'samples': [], 'nontrivial': 0, 'outcomes': [], 'config': 'longnames'}
    # ('bug' is a parameter whose name is contained in the name of another one, 'debug': names are compared, never searched)
    src = 'def f(alpha, debug=0, *rest, verbose=False, bug=0, **opts):\n    CALLS[0] += 1\n    return (alpha, debug, rest, verbose, bug, tuple(sorted(opts.items())))\n'
    calls = [((1,), {}), ((1, 5), {}), ((1,), {'debug': 7}), ((2,), {}), ((2, 5), {}), ((1,), {'verbose': True}), ((1, 0, 9), {}),
             ((1,), {'extra': 3}), ((1, 5), {'verbose': True}), ((1,), {'bug': 1}), ((1,), {'bug': 2}), ((1, 5), {'bug': 1})]
    # masked(binding) by ignore spec
    def masked(b, ign):
        alpha, debug, rest, verbose, bug, opts = b
        names = set(x for x in (ign if isinstance(ign, tuple) else (ign,)))
        if 'alpha' in names or 0 in names:
            alpha = '<ignored>'
        if 'debug' in names or 1 in names:
            debug = '<ignored>'
        if 'verbose' in names:
            verbose = '<ignored>'
        return (alpha, debug, rest, verbose, bug, opts)
    vias = [('direct', lambda d: d), ('copy', copy.copy), ('deepcopy', copy.deepcopy),
            ('pickle', lambda d: pickle.loads(pickle.dumps(d))), ('dill', lambda d: dill.loads(dill.dumps(d)))]
    for mod in (klepto, klepto.safe):
        for alg in ('no', 'inf', 'lfu', 'lru', 'mru', 'rr'):
            for ign in ('debug', 'verbose', 1, ('debug',), ('debug', 'verbose'), ('alpha',)):
              for tol, deep in ((None, False), (1, True)):
                for vname, via in (vias if tol is None else vias[:1]):
                    ns = {'CALLS': [0], '__name__': 'vfw_generated'}
                    exec(compile(src, '<c11 longnames>', 'exec'), ns)
                    f = ns['f']
                    kw = {} if alg in ('no', 'inf') else {'maxsize': 1000}
                    cfgtxt = '%s.%s_cache(ignore=%r%s) %s' % (mod.__name__, alg, ign, '' if tol is None else ', tol=%r, deep=%r' % (tol, deep),
                                                           'used directly' if vname == 'direct' else 'rebuilt by %s' % vname)
                    res['counts']['programs'] += 1
                    try:
                        W = via(getattr(mod, alg + '_cache')(keymap=km.stringmap(flat=False), ignore=ign, tol=tol, deep=deep, **kw))(f)
                    except Exception as e:
                        res['violations'].append(_v('C11', {'rule': 'decorator-cannot-be-rebuilt', 'via': vname, 'exc': type(e).__name__},
                                                    '%s: %r' % (cfgtxt, e), {'task': 'longnames', 'config': cfgtxt}))
                        continue
                    groups = {}
                    bykey = {}
                    for a, k in calls:
                        res['counts']['evaluations'] += 1
                        mb = masked(f(*a, **k), ign)
                        key = W.key(*a, **k)
                        o = groups.setdefault(mb, (key, (a, k)))
                        if o[0] != key:
                            res['violations'].append(_v('C11', {'rule': 'ignored-argument-influences-key', 'form': 'longnames', 'cause': 'other', 'via': vname},
                                                        '%s: calls %r and %r differ only in ignored arguments but get keys %r / %r' % (cfgtxt, o[1], (a, k), o[0], key),
                                                        {'task': 'longnames', 'config': cfgtxt, 'calls': [o[1], (a, k)]}))
                        o = bykey.setdefault(key, (mb, (a, k)))
                        if o[0] != mb:
                            res['violations'].append(_v('C11', {'rule': 'non-ignored-argument-lost', 'form': 'longnames', 'cause': 'other', 'via': vname},
                                                        '%s: calls %r and %r differ in a non-ignored argument but share key %r' % (cfgtxt, o[1], (a, k), key),
                                                        {'task': 'longnames', 'config': cfgtxt, 'calls': [o[1], (a, k)]}))
                    res['nontrivial'] += sum(1 for _ in groups)
                    if alg != 'no':
                        n0 = ns['CALLS'][0]
                        for a, k in calls:
                            W(*a, **k)
                        if ns['CALLS'][0] - n0 != len(groups) and not res['violations']:
                            res['violations'].append(_v('C11', {'rule': 'reevaluated-for-ignored-argument', 'form': 'longnames', 'cause': 'other', 'via': vname},
                                                        '%s: %d distinct masked bindings but %d evaluations' % (cfgtxt, len(groups), ns['CALLS'][0] - n0),
                                                        {'task': 'longnames', 'config': cfgtxt}))
    res['samples'].append({'function': src.split('\n')[0], 'ignore': 'debug', 'calls_sharing_one_entry': [[[1], {}], [[1, 5], {}], [[1], {'debug': 7}]]})
    res['counts'] = dict(res['counts'])
    res['config_summary'] = 'multi-character parameter names x bare / tuple ignore x decorator used directly or rebuilt'
    return res


def _dispatch(task):
    if task[0] == 'longnames':
        return _w_longnames(task)
    return _worker(task)


def run(tier, seed):
    rep = Report('C11', tier, seed, 'exploration',
                 'signature grammar x {function, method with self ignored by name, method with the instance at index 0} x ignore specs (subsets of names, indices, *, **) x call forms x keymaps; '
                 'oracle = masked binding (ignored parameters replaced by a token, * / ** dropped); '
                 'non-trivial = masked-binding groups with >= 2 calls (calls that differ only in ignored arguments)',
                 assumptions=['index i < number of named parameters addresses that parameter however it was passed; larger indices address *args slots'])
    specs = [s for s in spec_list(tier) if len(s) == 5]
    if tier == 'thorough':
        specs = [s for s in specs if s[0] <= 3]
    for res in pool.run_configs(_dispatch, [(tier, s) for s in specs] + [('longnames', tier)], seed=seed):
        rep.merge(res)
    rep.extra['signatures'] = len(specs)
    rep.extra['ignore_specs'] = len(ignore_specs(tier, False))
    return rep.finish()


def replay(doc):
    spec = tuple(doc['spec'])
    res = _worker(('quick', spec))
    out = []
    for v in res['violations']:
        if v['replay'].get('ignore') == doc.get('ignore') and v['replay'].get('form') == doc.get('form'):
            out.append((v['sig'], v['detail']))
    return out
