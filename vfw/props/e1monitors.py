"""Monitors (oracles + boring reference models) for the E1 cachemc engine."""
import collections

from ..engines.cachemc import Monitor, expected_result, cfg_class, snap_full, snap_key

CALLS = ('call', 'raise')


def _sig(cfg, prop, rule, **kw):
    d = {'property': prop, 'rule': rule, 'class': cfg_class(cfg)}
    d.update(kw)
    return d


def eff_maxsize(cfg):
    if cfg['alg'] == 'no':
        return 0
    if cfg['alg'] == 'inf':
        return None
    return cfg['maxsize']


def eff_purge(cfg):
    m = eff_maxsize(cfg)
    if m == 0:
        return True
    if m is None:
        return False
    return bool(cfg.get('purge'))


def _in(k, d):
    """membership that tolerates an un-hashable key (a non-flat raw keymap yields (args, {kwds}) tuples): such a key is in no dict"""
    try:
        return k in d
    except TypeError:
        return False


def _hk(k):
    """a hashable stand-in for a key (the key itself when it is hashable)"""
    try:
        hash(k)
        return k
    except TypeError:
        return ('unhashable', repr(k))


def stored_pre(tr):
    """was the call's key retrievable before the call (memory or attached archive)?"""
    if _in(tr.key, tr.pre.mem):
        return 'mem'
    if tr.pre.archived and tr.pre.arch is not None and _in(tr.key, tr.pre.arch):
        return 'arch'
    return None


class C01(Monitor):
    """transparency: every call returns what the undecorated function returns"""
    def __init__(self, cfg):
        self.cfg = cfg

    def step(self, S, tr):
        if tr.ev[0] != 'call':
            return []
        want = expected_result(self.cfg, tr.binding)
        if tr.exc is not None:
            return [(_sig(self.cfg, 'C01', 'call-raises', exc=type(tr.exc).__name__,
                          backend=self.cfg['backend']),
                     'call %r raised %r but the undecorated function returns %r' % (tr.call, tr.exc, want))]
        if tr.ret != want or type(tr.ret) is not type(want):
            return [(_sig(self.cfg, 'C01', 'wrong-value', source=stored_pre(tr) or 'computed',
                          backend=self.cfg['backend']),
                     'call %r returned %r, undecorated function returns %r' % (tr.call, tr.ret, want))]
        return []

    def nontrivial(self, S, tr):
        return tr.ev[0] == 'call' and stored_pre(tr) is not None


class C02(Monitor):
    """compute-once"""
    def __init__(self, cfg):
        self.cfg = cfg
        self.evals = {}          # key -> evaluations not yet forgiven
        self.churn = False       # an eviction / purge / redecorate has happened

    def state_key(self):
        return tuple(sorted((repr(k), v) for k, v in self.evals.items()))

    def step(self, S, tr):
        out = []
        kind = tr.ev[0]
        if kind in CALLS and not tr.incoherent:
            n = len(tr.logdelta)
            where = stored_pre(tr)
            if n > 1:
                out.append((_sig(self.cfg, 'C02', 'evaluated-more-than-once'),
                            'one call evaluated the function %d times' % n))
            elif n == 1 and where is not None:
                out.append((_sig(self.cfg, 'C02', 'evaluated-though-stored', where=where),
                            'call %r evaluated the function although its result was in %s' % (tr.call, where)))
            if n >= 1 and kind == 'call':
                self.evals[_hk(tr.key)] = self.evals.get(_hk(tr.key), 0) + 1
                if self.evals[_hk(tr.key)] > 1 and not out:
                    out.append((_sig(self.cfg, 'C02', 'key-evaluated-twice'),
                                'key %r evaluated twice although it was never evicted without archive nor cleared' % (tr.key,)))
            if set(tr.pre.mem) - set(tr.post.mem):
                self.churn = True
        if kind == 'redec':
            self.churn = True
        # forget keys that became irretrievable through a legitimate step (explicit clear,
        # re-decoration, archive switched off / not attached); a key lost in any other way
        # stays on record, so its re-evaluation is reported
        retr = set(tr.post.mem)
        if tr.post.archived and tr.post.arch:
            retr |= set(tr.post.arch)
        legit = kind in ('clear', 'clearks', 'redec', 'reclone', 'newarch', 'newarchc', 'aclear') or not tr.pre.archived \
            or (kind == 'arch' and bool(tr.ev[1]) != bool(tr.pre.archived))     # a toggle that asks for the other state
        # (judged by what was asked, not by what happened: archived(True) on a cache whose archive is on is a no-op, and
        # keys that become unreachable through it are lost, not legitimately detached)
        if kind in ('newarch', 'newarchc'):
            # the corollary speaks about one lossless archive staying attached: replacing it restarts the at-most-once
            # accounting for everything the new archive does not hold (the per-call clause is still checked)
            retr = set(tr.post.arch or ()) if tr.post.archived else set()
        if legit:
            # what had reached the attached archive stays on record across a re-decoration / pickling: a second
            # decorator instance sharing the archive must find it there
            keep = set(tr.pre.arch or ()) if (kind in ('redec', 'reclone') and tr.pre.archived) else set()
            for k in list(self.evals):
                if k not in retr and k not in keep:
                    del self.evals[k]
        return out

    def nontrivial(self, S, tr):
        return tr.ev[0] in CALLS and self.churn


class C05(Monitor):
    """capacity"""
    def __init__(self, cfg):
        self.cfg = cfg

    def step(self, S, tr):
        if tr.ev[0] not in CALLS:
            return []
        cfg = self.cfg
        m = eff_maxsize(cfg)
        pre, post = len(tr.pre.mem), len(tr.post.mem)
        out = []
        if tr.exc is not None and tr.raised is None:
            out.append((_sig(cfg, 'C05', 'call-raises', exc=type(tr.exc).__name__),
                        'call raised %r (maxsize=%r passed %s)' % (
                            tr.exc, cfg['maxsize'], 'positionally' if cfg.get('maxsize_pos') else 'by keyword')))
            return out
        if m == 0:
            # (a call whose function raised completes nothing: whatever a bulk load() had put into memory stays, which is
            # within "at most the larger of maxsize and the number resident before the call"; C16 owns that transition)
            if post != 0 and not (tr.raised is not None and post <= pre):
                out.append((_sig(cfg, 'C05', 'maxsize0-resident'),
                            'maxsize=0 but %d entries resident after the call' % post))
        elif m is None:
            gone = set(tr.pre.mem) - set(tr.post.mem)
            if gone:
                out.append((_sig(cfg, 'C05', 'maxsizeNone-evicts'),
                            'maxsize=None but %r left memory' % (sorted(map(repr, gone)),)))
        else:
            if post > max(m, pre):
                out.append((_sig(cfg, 'C05', 'over-capacity'),
                            '%d entries resident after the call (maxsize %d, %d before)' % (post, m, pre)))
            # (a call that evaluated nested calls is excluded: the overflow may have happened -- and emptied the cache --
            #  inside, after which the outer result is stored)
            if eff_purge(cfg) and tr.pre.archived and tr.raised is None and not tr.incoherent \
                    and not tr.extra.get('nested') and not _in(tr.key, tr.pre.mem) and pre + 1 > m and post != 0:
                out.append((_sig(cfg, 'C05', 'purge-not-empty'),
                            'purge=True archived overflow left %d entries in memory' % post))
        return out

    def nontrivial(self, S, tr):
        m = eff_maxsize(self.cfg)
        return tr.ev[0] in CALLS and (m in (0, None) or len(tr.pre.mem) + 1 > m)


class C06(Monitor):
    """eviction policy (reference models: recency list / use counter)"""
    def __init__(self, cfg):
        self.cfg = cfg
        self.order = []                          # resident keys, least recent first
        self.count = collections.Counter()       # uses since (re-)entry
        self.untracked = set()                   # entries the bookkeeping never saw

    def state_key(self):
        return (tuple(map(repr, self.order)), tuple(sorted((repr(k), v) for k, v in self.count.items())))

    def start(self, S):
        self.untracked = set(S.cache().keys()) if self.cfg.get('init') == 'seeded_cache' else set()
        return []

    def _forget(self, keys):
        for k in keys:
            if k in self.order:
                self.order.remove(k)
            self.count.pop(k, None)

    def step(self, S, tr):
        cfg = self.cfg
        kind = tr.ev[0]
        if kind in ('clear', 'clearks', 'redec'):
            self.order, self.count = [], collections.Counter()
            return []
        if kind not in CALLS or tr.incoherent:
            return []
        out = []
        m = eff_maxsize(cfg)
        alg = cfg['alg']
        prek = set(tr.pre.mem)
        postk = set(tr.post.mem)
        k = tr.key
        hit = k in prek
        inserted = (not hit) and tr.exc is None
        removed = (prek | ({k} if inserted else set())) - postk
        if tr.exc is not None:
            # a failed call changes nothing (C16 checks the rest)
            if removed:
                out.append((_sig(cfg, 'C06', 'raise-removes'), 'a raising call removed %r' % (sorted(map(repr, removed)),)))
            return out
        if hit:
            if removed:
                out.append((_sig(cfg, 'C06', 'hit-removes'), 'a hit removed %r' % (sorted(map(repr, removed)),)))
            self._use(k)
            return out
        if cfg.get('hits_only'):
            # only the hit rules are judged in these configurations -- plus, for LRU, the policy restricted to the entries
            # whose uses the wrapper has seen: if a *tracked* entry is the victim it is the least recently used tracked one
            # (entries that came in by load() and were never used have no recency; evicting one of them is never judged)
            if eff_purge(cfg) and tr.pre.archived and m is not None and len(prek) + 1 > m:
                self.order, self.count = [], collections.Counter()
                return out
            order = [q for q in self.order if q != k and q in prek] + [k]
            if alg == 'lru':
                for r in removed:
                    if r in order and r != order[0]:
                        out.append((_sig(cfg, 'C06', 'lru-wrong-victim-among-tracked'),
                                    'LRU evicted %r although %r was used less recently (uses seen, oldest first: %r)' % (r, order[0], order)))
            self._use(k)
            self._forget(removed)
            return out
        overflow = m is not None and len(prek) + 1 > m
        purge = eff_purge(cfg) and tr.pre.archived
        if not overflow:
            if removed:
                out.append((_sig(cfg, 'C06', 'removal-without-overflow'),
                            'no overflow but %r disappeared' % (sorted(map(repr, removed)),)))
            self._use(k)
            return out
        if purge or m == 0:
            self.order, self.count = [], collections.Counter()
            return out
        # overflow without purge: the policy decides
        if alg == 'lru':
            order = [q for q in self.order if q != k] + [k]
            victim = order[0]
            if removed != {victim}:
                out.append((_sig(cfg, 'C06', 'lru-wrong-victim'),
                            'LRU should evict %r (recency %r) but %r left memory' % (victim, order, sorted(map(repr, removed)))))
            self._use(k)
        elif alg == 'mru':
            victim = self.order[-1] if self.order else None
            if victim is None or removed != {victim}:
                out.append((_sig(cfg, 'C06', 'mru-wrong-victim'),
                            'MRU should evict %r (recency %r) but %r left memory' % (victim, self.order, sorted(map(repr, removed)))))
            self._use(k)
        elif alg == 'lfu':
            self._use(k)
            kept = postk
            if not removed:
                out.append((_sig(cfg, 'C06', 'lfu-no-victim'), 'overflow but nothing was evicted'))
            for r in removed:
                for q in kept:
                    if self.count[r] > self.count[q]:
                        out.append((_sig(cfg, 'C06', 'lfu-wrong-victim'),
                                    'LFU evicted %r (count %d) but kept %r (count %d)' % (r, self.count[r], q, self.count[q])))
        elif alg == 'rr':
            self._use(k)
            if len(removed) != 1:
                out.append((_sig(cfg, 'C06', 'rr-not-exactly-one'),
                            'RR overflow removed %r (exactly one expected)' % (sorted(map(repr, removed)),)))
        self._forget(removed)
        return out

    def _use(self, k):
        if k in self.order:
            self.order.remove(k)
        self.order.append(k)
        self.count[k] += 1

    def nontrivial(self, S, tr):
        m = eff_maxsize(self.cfg)
        return (tr.ev[0] == 'call' and m not in (0, None) and not _in(tr.key, tr.pre.mem)
                and len(tr.pre.mem) + 1 > m and len(set(self.order)) >= 1
                and not (eff_purge(self.cfg) and tr.pre.archived))


class C07(Monitor):
    """nothing lost on eviction"""
    def __init__(self, cfg):
        self.cfg = cfg
        self.computed = {}
        self.replaced = False        # wrapper.archive(new) happened while memory held entries

    def state_key(self):
        return (tuple(sorted((repr(k), repr(v)) for k, v in self.computed.items())), self.replaced)

    def step(self, S, tr):
        cfg = self.cfg
        out = []
        kind = tr.ev[0]
        if tr.incoherent:
            return out
        if kind in ('newarch', 'newarchc', 'aclear') and tr.pre.mem:
            self.replaced = True       # memory now holds entries that the attached archive does not
        out = self._step(S, tr, kind)
        if not tr.post.mem or kind == 'redec':
            self.replaced = False       # nothing resident any more that predates the replacement
        return out

    def _step(self, S, tr, kind):
        cfg = self.cfg
        out = []
        if kind in ('newarch', 'newarchc') and tr.exc is None and not tr.post.archived:
            out.append((_sig(cfg, 'C07', 'archive-not-attached', event=kind),
                        'after f.archive(obj) the cache is not archived (archived() is False): evictions will be dropped'))
        if kind in CALLS and tr.pre.archived and tr.post.arch is not None:
            new = {}
            if kind == 'call' and tr.exc is None and tr.logdelta:
                new[_hk(tr.key)] = tr.ret
            leaving = dict(tr.pre.mem)
            leaving.update(new)
            for k, v in leaving.items():
                if k in tr.post.mem:
                    continue
                if k not in tr.post.arch:
                    out.append((_sig(cfg, 'C07', 'evicted-not-archived', backend=cfg['backend'],
                                     archive_replaced=self.replaced, evaluated=bool(tr.logdelta)),
                                'entry %r left memory but is not in the archive' % (k,)))
                elif tr.post.arch[k] != v:
                    out.append((_sig(cfg, 'C07', 'evicted-archived-wrong-value', backend=cfg['backend']),
                                'entry %r left memory with value %r but archive holds %r' % (k, v, tr.post.arch[k])))
        if kind in CALLS + ('dump', 'dumpk', 'dumpks', 'load', 'loadk', 'loadks', 'lookup', 'key', 'info', 'arch', 'redec', 'reclone'):
            # cache traffic never changes or removes an archived entry
            for side_pre, side_post, name in ((tr.pre.arch, tr.post.arch, 'archive'), (tr.pre.swap, tr.post.swap, 'parked archive')):
                if kind == 'arch':
                    continue
                for k, v in (side_pre or {}).items():
                    if side_post is None or k not in side_post:
                        out.append((_sig(cfg, 'C07', 'archived-entry-removed', backend=cfg['backend'], event=kind),
                                    '%s entry %r disappeared during %r' % (name, k, tr.ev)))
                    elif side_post[k] != v and not (k in tr.pre.mem and tr.pre.mem[k] == side_post[k]):
                        out.append((_sig(cfg, 'C07', 'archived-entry-changed', backend=cfg['backend'], event=kind),
                                    '%s entry %r changed from %r to %r during %r' % (name, k, v, side_post[k], tr.ev)))
        # retrievable invariant
        if kind == 'call' and tr.exc is None and tr.logdelta:
            self.computed[_hk(tr.key)] = tr.ret
        retr = dict(tr.post.mem)
        if tr.post.arch:
            retr.update(tr.post.arch)
        if kind in ('clear', 'clearks', 'redec', 'reclone', 'newarch', 'newarchc', 'aclear') or not tr.pre.archived or not tr.post.archived:
            # explicit clear, or archive not attached: losses are legitimate
            for k in list(self.computed):
                if k not in retr:
                    del self.computed[k]
        else:
            for k, v in self.computed.items():
                if k not in retr:
                    out.append((_sig(cfg, 'C07', 'computed-result-lost', backend=cfg['backend'], event=kind,
                                     archive_replaced=self.replaced, evaluated=bool(tr.logdelta)),
                                'result for key %r is in neither memory nor archive after %r' % (k, tr.ev)))
        return out

    def nontrivial(self, S, tr):
        return tr.ev[0] in CALLS and tr.pre.archived and bool(set(tr.pre.mem) - set(tr.post.mem))


class C15(Monitor):
    """statistics"""
    def __init__(self, cfg):
        self.cfg = cfg
        self.completed = 0

    def state_key(self):
        return None

    def step(self, S, tr):
        cfg = self.cfg
        out = []
        kind = tr.ev[0]
        pre, post = tr.pre.info, tr.post.info
        if len(pre) != 5 or len(post) != 5 or pre[0] == 'ERR' or post[0] == 'ERR':
            return [(_sig(cfg, 'C15', 'info-fails'), 'info() failed: %r / %r' % (pre, post))]
        d = tuple(post[i] - pre[i] for i in range(3))
        m = eff_maxsize(cfg)
        if post[3] != m:
            out.append((_sig(cfg, 'C15', 'maxsize-misreported'), 'info().maxsize=%r, configured %r' % (post[3], m)))
        if post[4] != len(tr.post.mem):
            out.append((_sig(cfg, 'C15', 'size-misreported'), 'info().size=%r but %d entries resident' % (post[4], len(tr.post.mem))))
        if kind == 'raiseu':
            if d != (0, 0, 0) and tr.exc is not None:
                out.append((_sig(cfg, 'C15', 'wrong-delta', cls='raise-unkeyable'),
                            'a call with an un-keyable argument whose function raised changed (hit,miss,load) by %r' % (d,)))
        elif kind == 'callu':
            if tr.exc is None and not tr.extra.get('keyable') and d != (0, 1, 0):
                out.append((_sig(cfg, 'C15', 'wrong-delta', cls='miss-unkeyable'),
                            'a completed call with an un-keyable argument changed (hit,miss,load) by %r, expected (0, 1, 0)' % (d,)))
        elif kind in CALLS and not tr.incoherent:
            if tr.exc is not None:
                want = (0, 0, 0)
                cls = 'raise'
            else:
                where = stored_pre(tr)
                if where == 'mem' and cfg['alg'] != 'no':
                    want, cls = (1, 0, 0), 'hit'
                elif where is not None:
                    want, cls = (0, 0, 1), 'load'
                else:
                    want, cls = (0, 1, 0), 'miss'
                evald = len(tr.logdelta)
                if (cls == 'miss') != (evald == 1):
                    out.append((_sig(cfg, 'C15', 'class-vs-evaluation', cls=cls),
                                'call classified %s from the pre-state but function evaluated %d times' % (cls, evald)))
            if d != want:
                out.append((_sig(cfg, 'C15', 'wrong-delta', cls=cls),
                            '%s call changed (hit,miss,load) by %r, expected %r' % (cls, d, want)))
        elif kind == 'clear':
            if tr.exc is None:
                if post[:3] != (0, 0, 0):
                    out.append((_sig(cfg, 'C15', 'clear-keeps-stats'), 'clear() left counters %r' % (post[:3],)))
                if len(tr.post.mem) != 0 and cfg['alg'] != 'no':
                    out.append((_sig(cfg, 'C15', 'clear-keeps-entries'), 'clear() left %d entries' % len(tr.post.mem)))
        elif kind == 'clearks':
            if tr.exc is None:
                if d != (0, 0, 0):
                    out.append((_sig(cfg, 'C15', 'keepstats-changes-stats'), 'clear(keepstats=True) changed counters by %r' % (d,)))
                if len(tr.post.mem) != 0 and cfg['alg'] != 'no':
                    out.append((_sig(cfg, 'C15', 'clear-keeps-entries'), 'clear(keepstats=True) left %d entries' % len(tr.post.mem)))
        elif kind in ('redec',):
            pass
        else:
            if d != (0, 0, 0):
                out.append((_sig(cfg, 'C15', 'non-call-changes-stats', event=kind),
                            '%r changed counters by %r' % (tr.ev, d)))
        return out

    def nontrivial(self, S, tr):
        return tr.ev[0] in CALLS + ('clear', 'clearks', 'raiseu', 'callu')


class C16(Monitor):
    """exceptions pass through untouched"""
    def __init__(self, cfg):
        self.cfg = cfg

    def step(self, S, tr):
        cfg = self.cfg
        if tr.ev[0] == 'callu':
            return self.step_unkeyable(S, tr)
        if tr.ev[0] not in ('raise', 'raiseu'):
            return []
        out = []
        kind = tr.ev[2] if tr.ev[0] == 'raise' else 'Boom-unkeyable-%s' % tr.extra.get('value_kind')
        evald = len(tr.logdelta)
        if evald == 0:
            # answered from the cache: the function was never asked, nothing can raise -- provided there was an entry to
            # answer from.  A call whose key is stored nowhere has to ask the function, and then its exception is due
            stored = _in(tr.key, tr.pre.mem) or _in(tr.key, tr.pre.arch or ()) or _in(tr.key, tr.pre.swap or ())
            if tr.exc is None and tr.ev[0] == 'raise' and not stored:
                out.append((_sig(cfg, 'C16', 'raising-call-answered-without-evaluation', exc=kind),
                            'no result is stored for this call (key %r) and the function raises %s for it, but the call returned %r '
                            'without evaluating the function' % (tr.key, kind, tr.ret)))
            return out
        if tr.exc is None:
            out.append((_sig(cfg, 'C16', 'exception-swallowed', exc=kind),
                        'function raised %s but the call returned %r' % (kind, tr.ret)))
        elif tr.exc is not tr.raised:
            out.append((_sig(cfg, 'C16', 'different-exception', exc=kind),
                        'function raised %r, caller received %r' % (tr.raised, tr.exc)))
        if evald != 1:
            out.append((_sig(cfg, 'C16', 'evaluated-more-than-once', exc=kind),
                        'raising call evaluated the function %d times' % evald))
        if snap_full(tr.pre) != snap_full(tr.post):
            a, b = snap_full(tr.pre), snap_full(tr.post)
            names = ('memory', 'archive', 'parked archive', 'archived flag', 'bookkeeping', 'stats', 'info')
            diff = [n for n, x, y in zip(names, a, b) if x != y]
            out.append((_sig(cfg, 'C16', 'state-changed-by-failed-call', exc=kind, what=','.join(diff)),
                        'failed call changed %s' % (diff,)))
        return out

    def step_unkeyable(self, S, tr):
        """safe decorators never fail because an argument is unhashable / cannot be encoded"""
        cfg = self.cfg
        out = []
        vk = tr.extra.get('value_kind')
        km = cfg.get('keymap', 'default')
        if tr.exc is not None:
            out.append((_sig(cfg, 'C16', 'safe-call-raises', exc=type(tr.exc).__name__, value=vk, keymap=km,
                             archived=bool(tr.pre.archived), backend=cfg['backend']),
                        'safe decorator raised %r for argument of kind %s (keymap %s)' % (tr.exc, vk, km)))
            return out
        want = ('u', type(tr.extra['value']).__name__, 0)
        if tr.ret != want:
            out.append((_sig(cfg, 'C16', 'safe-call-wrong-result', value=vk, keymap=km),
                        'call with %s argument returned %r, function returns %r' % (vk, tr.ret, want)))
        if not tr.extra.get('keyable'):
            if len(tr.logdelta) != 1:
                out.append((_sig(cfg, 'C16', 'safe-fallback-evaluations', value=vk, keymap=km),
                            'un-keyable argument: function evaluated %d times (expected exactly once)' % len(tr.logdelta)))
            d = tuple(b - a for a, b in zip(tr.pre.info[:3], tr.post.info[:3]))
            if d != (0, 1, 0):
                out.append((_sig(cfg, 'C16', 'safe-fallback-not-a-miss', value=vk, keymap=km),
                            'un-keyable argument changed (hit,miss,load) by %r, expected (0,1,0)' % (d,)))
            if snap_key(tr.pre)[:-1] != snap_key(tr.post)[:-1]:          # (everything but the statistics' zero pattern)
                out.append((_sig(cfg, 'C16', 'safe-fallback-changes-state', value=vk, keymap=km),
                            'un-keyable argument changed cache / archive / bookkeeping'))
        return out

    def nontrivial(self, S, tr):
        return (tr.ev[0] in ('raise', 'raiseu') and len(tr.logdelta) == 1) or (tr.ev[0] == 'callu' and not tr.extra.get('keyable', True))


class C18(Monitor):
    """introspection coherence"""
    def __init__(self, cfg):
        self.cfg = cfg

    def start(self, S):
        if S.wrapper.__wrapped__ is not S.fn:
            return [(_sig(self.cfg, 'C18', 'wrapped-not-original'), '__wrapped__ is not the original function')]
        return []

    def step(self, S, tr):
        cfg = self.cfg
        out = []
        kind = tr.ev[0]
        if tr.incoherent:
            out.append((_sig(cfg, 'C18', 'key-not-storage-key', keymap=cfg.get('keymap', 'default')), tr.incoherent))
        if kind in ('key', 'lookup'):
            if snap_full(tr.pre) != snap_full(tr.post):
                a, b = snap_full(tr.pre), snap_full(tr.post)
                names = ('memory', 'archive', 'parked archive', 'archived flag', 'bookkeeping', 'stats', 'info')
                diff = [n for n, x, y in zip(names, a, b) if x != y]
                out.append((_sig(cfg, 'C18', '%s-changes-state' % kind, what=','.join(diff)),
                            '%s() changed %s' % (kind, diff)))
            if tr.logdelta:
                out.append((_sig(cfg, 'C18', '%s-evaluates' % kind), '%s() evaluated the function' % kind))
        if kind == 'key':
            if tr.exc is not None:
                out.append((_sig(cfg, 'C18', 'key-raises', exc=type(tr.exc).__name__), 'key() raised %r' % (tr.exc,)))
            elif tr.ret != tr.key or type(tr.ret) is not type(tr.key):
                out.append((_sig(cfg, 'C18', 'key-unstable'), 'key() returned %r, earlier %r' % (tr.ret, tr.key)))
        if kind == 'lookup' and _hk(tr.key) is tr.key:      # (under an un-hashable key nothing can be resident, and a dict lookup raises TypeError)
            resident = _in(tr.key, tr.pre.mem)
            if resident:
                if tr.exc is not None:
                    out.append((_sig(cfg, 'C18', 'lookup-raises-for-resident', exc=type(tr.exc).__name__),
                                'lookup() raised %r though the entry is resident' % (tr.exc,)))
                elif tr.ret != tr.pre.mem[tr.key]:
                    out.append((_sig(cfg, 'C18', 'lookup-wrong-value'),
                                'lookup() returned %r, resident value is %r' % (tr.ret, tr.pre.mem[tr.key])))
            else:
                if not isinstance(tr.exc, KeyError):
                    out.append((_sig(cfg, 'C18', 'lookup-no-keyerror'),
                                'lookup() of a non-resident entry gave %r / %r instead of KeyError' % (tr.ret, tr.exc)))
        if kind in ('redec', 'reclone') and tr.exc is None:
            if S.wrapper.__wrapped__ is not S.fn:
                out.append((_sig(cfg, 'C18', 'wrapped-not-original'), '__wrapped__ is not the original function'))
        # a call answered without evaluating the function was answered from the entry key() names
        if kind == 'call' and tr.exc is None and not tr.logdelta and not tr.extra.get('nested'):
            if not (_in(tr.key, tr.pre.mem) or _in(tr.key, tr.pre.arch or ()) or _in(tr.key, tr.pre.swap or ())):
                out.append((_sig(cfg, 'C18', 'answered-from-entry-key-does-not-name'),
                            'the call was answered (%r) without evaluation, but key() = %r names no stored entry; memory holds %r' % (
                                tr.ret, tr.key, sorted(map(repr, tr.pre.mem)))))
        # a stored call is found under key(): after a call, if anything holds the result it is under tr.key
        if kind == 'call' and tr.exc is None and not tr.incoherent and tr.logdelta:
            new_mem = set(tr.post.mem) - set(tr.pre.mem)
            if new_mem - {_hk(tr.key)}:
                out.append((_sig(cfg, 'C18', 'key-not-storage-key'), 'new memory keys %r, key() %r' % (new_mem, tr.key)))
        return out

    def nontrivial(self, S, tr):
        return tr.ev[0] in ('key', 'lookup') or (tr.ev[0] == 'call' and bool(tr.logdelta))


class C20(Monitor):
    """pickled function resumes: equality at the round trip + independence afterwards"""
    def __init__(self, cfg):
        self.cfg = cfg
        self.orig_snap = None

    def state_key(self):
        return self.orig_snap is not None

    def step(self, S, tr):
        from ..engines.cachemc import snapshot, PERSISTENT
        cfg = self.cfg
        out = []
        kind = tr.ev[0]
        if kind == 'reclone':
            if tr.exc is not None:
                return [(_sig(cfg, 'C20', 'roundtrip-raises', exc=type(tr.exc).__name__, backend=cfg['backend']),
                         'dill round trip raised %r' % (tr.exc,))]
            a, b = snap_full(tr.pre), snap_full(tr.post)
            if a != b:
                names = ('memory', 'archive', 'parked archive', 'archived flag', 'bookkeeping', 'stats', 'info')
                diff = [n for n, x, y in zip(names, a, b) if x != y]
                out.append((_sig(cfg, 'C20', 'clone-differs', what=','.join(diff)),
                            'clone differs from original in %s: %r vs %r' % (
                                diff, [x for x, y in zip(a, b) if x != y], [y for x, y in zip(a, b) if x != y])))
            self.orig_snap = 'set'
            return out
        if kind == 'redec':
            self.orig_snap = None
            return out
        if self.orig_snap is not None and S.orig is not None and S.orig_snap is not None:
            now = snapshot(S.orig, S.orig.__wrapped__.log)
            then = S.orig_snap
            persistent = S.kind in PERSISTENT
            fields = ['mem', 'cells', 'stats', 'archived', 'loglen']
            if not persistent:
                fields += ['arch', 'swap']
            diff = [f for f in fields if getattr(now, f) != getattr(then, f)]
            if diff:
                out.append((_sig(cfg, 'C20', 'not-independent', what=','.join(diff)),
                            'stepping the clone with %r changed the original\'s %s' % (tr.ev, diff)))
        return out

    def nontrivial(self, S, tr):
        return tr.ev[0] == 'reclone' or (self.orig_snap is not None and tr.ev[0] in CALLS)


class Twin(Monitor):
    """two separately decorated functions are independent: a call to the twin returns the twin's own result, is
    evaluated at most once per key, and leaves the first function's memory, archive, bookkeeping and statistics alone"""
    def __init__(self, cfg, prop):
        self.cfg = cfg
        self.prop = prop
        self.tstate = None

    def state_key(self):
        # the second function's own state is part of the product state (the snapshot only covers the first function)
        return self.tstate

    def start(self, S):
        self._capture(S)
        return []

    def _capture(self, S):
        from ..engines.cachemc import snapshot
        try:
            self.tstate = repr(snap_full(snapshot(S.twin, S.tlog)))
        except BaseException as e:
            self.tstate = 'ERR %s' % type(e).__name__

    def step(self, S, tr):
        out = self._step(S, tr)
        self._capture(S)
        return out

    def _step(self, S, tr):
        if tr.ev[0] not in ('tcall', 'tlookup'):
            return []
        cfg = self.cfg
        out = []
        kind = tr.ev[0]
        tkey = tr.extra.get('twin_key')
        pre, post = tr.extra.get('twin_mem_pre', {}), tr.extra.get('twin_mem_post', {})
        if kind == 'tcall':
            if tr.exc is not None:
                out.append((_sig(cfg, self.prop, 'twin-call-raises', exc=type(tr.exc).__name__), 'calling a second decorated function raised %r' % (tr.exc,)))
            elif tr.ret != tr.extra['twin_expected']:
                out.append((_sig(cfg, self.prop, 'twin-wrong-value'),
                            'second decorated function returned %r for %r, it computes %r (cross-talk with the first function)' % (
                                tr.ret, S.calls[tr.ev[1]], tr.extra['twin_expected'])))
            # what the second function stores, it stores under its own key()
            new = set(post) - set(pre)
            if tr.exc is None and tr.extra.get('twin_evals') and new and new != {tkey}:
                out.append((_sig(cfg, self.prop, 'twin-key-not-storage-key'),
                            'second function stored under %r but its key() says %r' % (sorted(map(repr, new)), tkey)))
            # capacity and reported bound of the second function are its own
            info = tr.extra.get('twin_info', ())
            ms = cfg.get('maxsize')
            if len(info) == 5 and isinstance(ms, int) and ms > 0 and cfg['alg'] not in ('no', 'inf'):
                want = ms + 3 if cfg['twin'] == 'constructed-first' else ms
                if cfg['twin'] != 'same-decorator' and info[3] != want:
                    out.append((_sig(cfg, self.prop, 'twin-maxsize-misreported'), 'second function reports maxsize %r, constructed with %r' % (info[3], want)))
                if cfg['twin'] != 'same-decorator' and len(post) > max(want, len(pre)):
                    out.append((_sig(cfg, self.prop, 'twin-over-capacity'), 'second function holds %d entries, its bound is %d' % (len(post), want)))
        else:
            resident = tkey in pre if not isinstance(tkey, tuple) or tkey[:1] != ('KEY-RAISED',) else False
            if resident and (tr.exc is not None or tr.ret != pre[tkey]):
                out.append((_sig(cfg, self.prop, 'twin-lookup-wrong'), 'lookup() on the second function gave %r / %r, resident value %r' % (tr.ret, tr.exc, pre[tkey])))
            if not resident and not isinstance(tr.exc, KeyError):
                out.append((_sig(cfg, self.prop, 'twin-lookup-wrong'), 'lookup() on the second function for a non-resident entry gave %r / %r' % (tr.ret, tr.exc)))
        a, b = snap_full(tr.pre), snap_full(tr.post)
        if (a != b or tr.logdelta) and cfg['twin'] != 'same-decorator-explicit-cache':
            names = ('memory', 'archive', 'parked archive', 'archived flag', 'bookkeeping', 'stats', 'info')
            diff = [n for n, x, y in zip(names, a, b) if x != y] + (['evaluations'] if tr.logdelta else [])
            out.append((_sig(cfg, self.prop, 'twin-call-changes-first-function', what=','.join(diff)),
                        'a call to a second, separately decorated function changed the first function\'s %s' % (diff,)))
        return out

    def nontrivial(self, S, tr):
        return tr.ev[0] in ('tcall', 'tlookup')


MONITORS = {'C01': C01, 'C02': C02, 'C05': C05, 'C06': C06, 'C07': C07, 'C15': C15, 'C16': C16,
            'C18': C18, 'C20': C20}
