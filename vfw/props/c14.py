"""C14 schedmc: concurrent processes on one store.

Every interleaving (iterative preemption bounding) of 2-3 real processes, each
with its own handle on one shared directory / file / sqlite archive, gated by
the fsgate shim at every libc file-system call under the archive root.
"""
import collections

from ..core import pool
from ..core.evidence import Report
from ..engines import fsgate

MISSING = 'MISSING'


def v(sig, detail, replay):
    sig = dict(sig)
    sig['engine'] = 'schedmc'
    sig['property'] = 'C14'
    r = {'engine': 'schedmc', 'property': 'C14'}
    r.update(replay)
    return {'sig': sig, 'detail': detail, 'replay': r}


# ---------------------------------------------------------------------------
# scenarios

def W(*ops, **kw):
    d = {'role': 'writer', 'ops': list(ops), 'cached': False}
    d.update(kw)
    return d


def R(*ops, **kw):
    d = {'role': 'reader', 'ops': list(ops), 'cached': False}
    d.update(kw)
    return d


def O(cached):
    # a process merely opening the archive (the open itself is gated)
    return {'role': 'opener', 'ops': [], 'cached': cached, 'open_gated': True}


READERS = [('getd', 'k3'), ('contains', 'k3'), ('len',), ('keys',), ('items',), ('load',)]


def scenarios(tier):
    sc = []
    P1 = [('set', 'k1', 'old1')]
    dirs = ['dir'] if tier == 'quick' else ['dir', 'dir-json', 'dir-source', 'dir-compressed']
    files = ['file'] if tier == 'quick' else ['file', 'file-json', 'file-source']
    for b in dirs:
        sc.append(dict(name='set k2 || set k3', backend=b, prior=P1, actors=[W(('set', 'k2', 'new2')), W(('set', 'k3', 'new3'))]))
        for r in READERS:
            sc.append(dict(name='set k3 || %s' % (r,), backend=b, prior=P1, actors=[W(('set', 'k3', 'new3')), R(r)]))
        sc.append(dict(name='overwrite k1 || get k1', backend=b, prior=P1, actors=[W(('set', 'k1', 'new1')), R(('get', 'k1'))]))
        sc.append(dict(name='overwrite k1 || items', backend=b, prior=P1, actors=[W(('set', 'k1', 'new1')), R(('items',))]))
        for r in [('getd', 'k1'), ('items',), ('keys',), ('len',), ('load',)]:
            sc.append(dict(name='del k1 || %s' % (r,), backend=b, prior=P1 + [('set', 'k2', 'old2')], actors=[W(('del', 'k1')), R(r)]))
        sc.append(dict(name='set k3 || open cached', backend=b, prior=P1, actors=[W(('set', 'k3', 'new3')), O(True)]))
        sc.append(dict(name='empty store: set k3 || open cached', backend=b, prior=[], actors=[W(('set', 'k3', 'new3')), O(True)]))
        sc.append(dict(name='empty store: set k2 || set k3', backend=b, prior=[], actors=[W(('set', 'k2', 'new2')), W(('set', 'k3', 'new3'))]))
        sc.append(dict(name='failing set k1 || get k1', backend=b, prior=P1,
                       actors=[dict(role='faulty', ops=[('set', 'k1', '<UNENCODABLE>')], cached=False), R(('get', 'k1'))]))
        sc.append(dict(name='failing set k9 || set k3', backend=b, prior=P1,
                       actors=[dict(role='faulty', ops=[('set', 'k9', '<UNENCODABLE>')], cached=False), W(('set', 'k3', 'new3'))]))
        # writers on distinct keys: multi-key writers, a deleter next to a writer, cache-level dump next to a bulk load
        P2 = P1 + [('set', 'k2', 'old2')]
        sc.append(dict(name='update k2,k3 || update k4,k5', backend=b, prior=P1,
                       actors=[W(('update', (('k2', 'new2'), ('k3', 'new3')))), W(('update', (('k4', 'new4'), ('k5', 'new5'))))]))
        sc.append(dict(name='del k1 || set k3', backend=b, prior=P2, actors=[W(('del', 'k1')), W(('set', 'k3', 'new3'))]))
        sc.append(dict(name='pop k2 || overwrite k1', backend=b, prior=P2, actors=[W(('pop', 'k2')), W(('set', 'k1', 'new1'))]))
        sc.append(dict(name='dump k3,k4 || load', backend=b, prior=P1, actors=[W(('dump', (('k3', 'new3'), ('k4', 'new4')))), R(('load',))]))
        # keys that dir_archive cannot read back from the directory name (it keeps the key itself in a second file of the
        # entry): an int and a string with a dash, overwritten next to a listing reader
        P3 = P1 + [('set', 7, 'old7'), ('set', 'a-b', 'olddash')]
        for r in [('keys',), ('items',)] + ([('load',), ('len',)] if tier == 'thorough' else []):
            sc.append(dict(name='overwrite 7 || %s' % (r,), backend=b, prior=P3, actors=[W(('set', 7, 'new7')), R(r)]))
        sc.append(dict(name='overwrite a-b || %s' % (('keys',),), backend=b, prior=P3, actors=[W(('set', 'a-b', 'newdash')), R(('keys',))]))
        # ... and twice by the same process (what its first overwrite leaves behind is there for the second)
        sc.append(dict(name='overwrite 7 twice || %s' % (('keys',),), backend=b, prior=P3,
                       actors=[W(('set', 7, 'new7'), ('set', 7, 'newer7')), R(('keys',))], bound=1 if tier == 'quick' else 2))
        # a cache bound to the archive that synchronises its one new entry, next to a writer that overwrites another key
        sc.append(dict(name='sync k3 || overwrite k1', backend=b, prior=P1,
                       actors=[W(('sync', (('k3', 'new3'),))), W(('set', 'k1', 'new1'))]))
        sc.append(dict(name='set k2 || set k3 || keys', backend=b, prior=P1,
                       actors=[W(('set', 'k2', 'new2')), W(('set', 'k3', 'new3')), R(('keys',))], bound=1 if tier == 'quick' else 2))
        if tier == 'thorough':
            sc.append(dict(name='set k2 || set k3 || items', backend=b, prior=P1,
                           actors=[W(('set', 'k2', 'new2')), W(('set', 'k3', 'new3')), R(('items',))], bound=2))
            sc.append(dict(name='clear || items', backend=b, prior=P1 + [('set', 'k2', 'old2')], actors=[W(('clear',)), R(('items',))]))
            sc.append(dict(name='setdefault k1 || get k1', backend=b, prior=P1, actors=[W(('setdefault', 'k1', 'zz')), R(('get', 'k1'))]))
    for b in files:
        for r in [('getd', 'k3'), ('len',), ('items',), ('asdict',), ('load',), ('keys',)]:
            sc.append(dict(name='set k3 || %s' % (r,), backend=b, prior=P1, actors=[W(('set', 'k3', 'new3')), R(r)]))
        sc.append(dict(name='overwrite k1 || get k1', backend=b, prior=P1, actors=[W(('set', 'k1', 'new1')), R(('get', 'k1'))]))
        sc.append(dict(name='set k3 || open cached', backend=b, prior=P1, actors=[W(('set', 'k3', 'new3')), O(True)]))
        sc.append(dict(name='set k3 || open direct', backend=b, prior=P1, actors=[W(('set', 'k3', 'new3')), O(False)]))
        # a store that fails (the value cannot be encoded) next to a reader / next to a writer: the failure must stay local
        sc.append(dict(name='failing set k9 || items', backend=b, prior=P1,
                       actors=[dict(role='faulty', ops=[('set', 'k9', '<UNENCODABLE>')], cached=False), R(('items',))]))
        sc.append(dict(name='failing set k9 || get k1', backend=b, prior=P1,
                       actors=[dict(role='faulty', ops=[('set', 'k9', '<UNENCODABLE>')], cached=False), R(('get', 'k1'))]))
        # the archive exists but is still empty (state right after creation)
        sc.append(dict(name='empty store: set k3 || open cached', backend=b, prior=[], actors=[W(('set', 'k3', 'new3')), O(True)]))
        sc.append(dict(name='empty store: set k3 || items', backend=b, prior=[], actors=[W(('set', 'k3', 'new3')), R(('items',))]))
        if tier == 'thorough':
            sc.append(dict(name='pop k1 || items', backend=b, prior=P1 + [('set', 'k2', 'old2')], actors=[W(('pop', 'k1')), R(('items',))]))
    b = 'sql'
    sc.append(dict(name='set k2 || set k3', backend=b, prior=P1, actors=[W(('set', 'k2', 'new2')), W(('set', 'k3', 'new3'))]))
    for r in [('getd', 'k3'), ('items',), ('len',)] + ([('keys',), ('load',), ('contains', 'k3')] if tier == 'thorough' else []):
        sc.append(dict(name='set k3 || %s' % (r,), backend=b, prior=P1, actors=[W(('set', 'k3', 'new3')), R(r)]))
    sc.append(dict(name='pop k1 || items', backend=b, prior=P1 + [('set', 'k2', 'old2')], actors=[W(('pop', 'k1')), R(('items',))]))
    sc.append(dict(name='del k1 || set k3', backend=b, prior=P1 + [('set', 'k2', 'old2')], actors=[W(('del', 'k1')), W(('set', 'k3', 'new3'))]))
    sc.append(dict(name='update || items', backend=b, prior=P1, actors=[W(('update', (('k1', 'new1'), ('k3', 'new3')))), R(('items',))]))
    sc.append(dict(name='empty store: set k3 || open cached', backend=b, prior=[], actors=[W(('set', 'k3', 'new3')), O(True)]))
    # a reader that has finished its operation but stays alive with its handle open (idle) must not keep anybody out;
    # k1 has been overwritten before (the sqlite table keeps superseded rows)
    PH = [('set', 'k1', 'x'), ('set', 'k1', 'old1'), ('set', 'k2', 'old2')]
    for r in [('contains', 'k1'), ('get', 'k1'), ('len',), ('items',)] + ([('keys',), ('load',), ('getd', 'k9')] if tier == 'thorough' else []):
        sc.append(dict(name='idle after %s || set k3' % (r,), backend=b, prior=PH, actors=[R(r, linger=True), W(('set', 'k3', 'new3'))], bound=1))
    # a process whose store fails (a value sqlite cannot bind), which then reads and stays alive, idle: nobody else may be kept out
    sc.append(dict(name='idle after failed set + contains || set k3', backend=b, prior=PH,
                   actors=[dict(role='faulty', ops=[('set', 'k9', 2 ** 70), ('contains', 'k1')], cached=False, linger=True), W(('set', 'k3', 'new3'))], bound=1))
    sc.append(dict(name='idle after failed update || set k3', backend=b, prior=PH,
                   actors=[dict(role='faulty', ops=[('update', (('k8', 'v8'), ('k9', 2 ** 70)))], cached=False, linger=True), W(('set', 'k3', 'new3'))], bound=1))
    sc.append(dict(name='sync k3 || overwrite k1', backend=b, prior=P1,
                   actors=[W(('sync', (('k3', 'new3'),))), W(('set', 'k1', 'new1'))]))
    # a process that merely opens a table with a past (superseded rows) next to a writer of another key
    sc.append(dict(name='table with superseded rows: set k3 || open direct', backend=b, prior=PH, actors=[W(('set', 'k3', 'new3')), O(False)]))
    sc.append(dict(name='table with superseded rows: set k3 || open cached', backend=b, prior=PH, actors=[W(('set', 'k3', 'new3')), O(True)]))
    # ... and a writer that supersedes a row itself (its own handle was opened on a table without a past) before it stores
    # another key, next to a process that merely opens the table
    sc.append(dict(name='overwrite k1, set k3 || open direct', backend=b, prior=P1,
                   actors=[W(('set', 'k1', 'new1'), ('set', 'k3', 'new3')), O(False)]))
    sc.append(dict(name='overwrite k1, set k3 || open cached', backend=b, prior=P1,
                   actors=[W(('set', 'k1', 'new1'), ('set', 'k3', 'new3')), O(True)]))
    if tier == 'thorough':
        for b2 in dirs:
            sc.append(dict(name='overwrite k1, set k3 || open cached', backend=b2, prior=P1,
                           actors=[W(('set', 'k1', 'new1'), ('set', 'k3', 'new3')), O(True)]))
    if tier == 'thorough':
        sc.append(dict(name='table with superseded rows: del k2 || open direct', backend=b, prior=PH, actors=[W(('del', 'k2')), O(False)]))
        sc.append(dict(name='table with superseded rows: set k3 || items', backend=b, prior=PH, actors=[W(('set', 'k3', 'new3')), R(('items',))]))
        for b2 in dirs + files:
            sc.append(dict(name='store with a past: set k3 || open cached', backend=b2, prior=PH + [('del', 'k2')], actors=[W(('set', 'k3', 'new3')), O(True)]))
    if tier == 'thorough':
        sc.append(dict(name='update k2,k3 || update k4,k5', backend=b, prior=P1,
                       actors=[W(('update', (('k2', 'new2'), ('k3', 'new3')))), W(('update', (('k4', 'new4'), ('k5', 'new5'))))]))
        sc.append(dict(name='set k3 || open cached', backend=b, prior=P1, actors=[W(('set', 'k3', 'new3')), O(True)]))
    return sc


# ---------------------------------------------------------------------------
# oracle

def apply_model(state, op):
    s = dict(state)
    k = op[0]
    if k == 'set':
        s[op[1]] = op[2]
    elif k in ('update', 'dump', 'sync'):
        s.update(dict(op[1]))
    elif k in ('del', 'pop'):
        s.pop(op[1], None)
    elif k == 'setdefault':
        s.setdefault(op[1], op[2])
    elif k == 'clear':
        s.clear()
    return s


def check(sc, res):
    """returns list of (rule, extra sig, detail)"""
    out = []
    prior = {}
    for o in sc['prior']:
        prior = apply_model(prior, o)
    writers = [(i, a) for i, a in enumerate(sc['actors']) if a['role'] == 'writer']
    # every value ever stored per key, every state size that existed, the dictionaries that existed (single writer)
    ever = collections.defaultdict(set)
    for k, val in prior.items():
        ever[k].add(val)
    completed = []
    for i, a in writers:
        r = res['results'][i]
        ok = isinstance(r, list) and all(x[0] == 'ret' for x in r)
        for o in a['ops']:
            st = apply_model({}, o)
            for k, val in st.items():
                ever[k].add(val)
        if ok:
            completed.append(a)
    expected = dict(prior)
    for a in completed:
        for o in a['ops']:
            expected = apply_model(expected, o)
    # states that existed: prior, and prior + any subset of writers' effects (writers touch distinct keys)
    states = [dict(prior)]
    for i, a in writers:
        more = []
        for s in states:
            t = dict(s)
            for o in a['ops']:
                t = apply_model(t, o)
            more.append(t)
        states += more
    sizes = set(len(s) for s in states)
    sizes = set(range(min(sizes), max(sizes) + 1))
    # final contents seen by a fresh handle
    fin = res['final']
    bad_final = [n for n in ('open', 'len', 'keys', 'asdict', 'items', 'load', 'cached-open-load') if fin.get(n, ('exc', '?', 'missing'))[0] != 'ret']
    if bad_final:
        n = bad_final[0]
        out.append(('final-read-raises', {'read': n}, 'after all processes finished, %s raised %r' % (n, fin.get(n))))
    else:
        F = dict(fin['asdict'][1])
        if F != expected:
            lost = [k for k in expected if k not in F or F[k] != expected[k]]
            extra = [k for k in F if k not in expected]
            failed_writers = len(writers) - len(completed)
            if not (failed_writers and all(F == s for s in [F]) and F in states):
                out.append(('lost-or-corrupted-entry', {'lost': bool(lost), 'extra': bool(extra)},
                            'final contents %r, expected %r (completed writes must survive)' % (F, expected)))
    # a writer may be refused while another process is in the middle of an operation; it may not be refused by
    # processes that have all finished theirs (idle handles) before it even started
    trace = res.get('trace') or []
    for i, a in writers:
        r = res['results'][i]
        if isinstance(r, list) and all(x[0] == 'ret' for x in r):
            continue
        mine = [n for n, t in enumerate(trace) if t[0][t[1]] == i]
        if not mine:
            continue
        others_done_before = True
        for j, b in enumerate(sc['actors']):
            if j == i:
                continue
            idle = [n for n, t in enumerate(trace) if t[0][t[1]] == j and t[2] == 'idle']
            last = [n for n, t in enumerate(trace) if t[0][t[1]] == j and t[2] != 'exit']
            end = idle[0] if idle else (last[-1] if last else -1)
            if not (b.get('linger') and idle) and last and last[-1] > mine[0]:
                others_done_before = False
            elif end > mine[0]:
                others_done_before = False
        if others_done_before:
            out.append(('writer-refused-by-idle-process', {'exc': (r[0][1] if isinstance(r, list) and r else '?')},
                        'writer %d failed with %r although every other process had finished its operations before it started' % (i, r)))
    # what readers / openers saw
    for i, a in enumerate(sc['actors']):
        r = res['results'][i]
        if a['role'] in ('writer', 'faulty'):
            continue
        if not isinstance(r, list):
            out.append(('reader-process-failed', {}, 'actor %d returned %r' % (i, r)))
            continue
        if a['role'] == 'opener':
            for x in r:
                if x[0] != 'ret':
                    out.append(('opener-fails', {'exc': x[1]}, 'opening the archive raised %s: %s' % (x[1], x[2])))
            continue
        for op, x in zip(a['ops'], r):
            if x[0] != 'ret':
                if op[0] == 'get' and x[1] == 'KeyError' and any(op[1] not in s for s in states):
                    continue            # the key was absent at some instant: a miss is legitimate
                out.append(('reader-fails', {'read': op[0], 'exc': x[1]}, 'concurrent %r raised %s: %s' % (op, x[1], x[2])))
                continue
            val = x[1]
            if op[0] == 'get':
                if val not in ever[op[1]]:
                    out.append(('torn-or-foreign-value', {'read': 'get'}, '%r returned %r, values ever stored: %r' % (op, val, sorted(ever[op[1]]))))
            elif op[0] == 'getd':
                if val == MISSING:
                    if all(op[1] in s for s in states):
                        out.append(('present-key-missed', {'read': 'getd'}, '%r missed a key that was present throughout' % (op,)))
                elif val not in ever[op[1]]:
                    out.append(('torn-or-foreign-value', {'read': 'getd'}, '%r returned %r, values ever stored: %r' % (op, val, sorted(ever[op[1]]))))
            elif op[0] == 'contains':
                if val is False and all(op[1] in s for s in states):
                    out.append(('present-key-missed', {'read': 'contains'}, '%r is False for a key present throughout' % (op,)))
                if val is True and all(op[1] not in s for s in states):
                    out.append(('phantom-key', {'read': 'contains'}, '%r is True for a key never stored' % (op,)))
            elif op[0] == 'len':
                if val not in sizes:
                    out.append(('phantom-key' if val > max(sizes) else 'present-key-missed', {'read': 'len'},
                                'len() = %r, sizes that existed: %r' % (val, sorted(sizes))))
            elif op[0] == 'keys':
                for k in val:
                    if k not in ever:
                        out.append(('phantom-key', {'read': 'keys'}, 'keys() reported %r, never stored' % (k,)))
                for k in ever:
                    if all(k in s for s in states) and k not in val:
                        out.append(('present-key-missed', {'read': 'keys'}, 'keys() %r misses %r which was present throughout' % (val, k)))
            elif op[0] in ('items', 'asdict', 'load'):
                d = dict(val)
                for k, w in d.items():
                    if k not in ever:
                        out.append(('phantom-key', {'read': op[0]}, '%s reported key %r, never stored' % (op[0], k)))
                    elif w not in ever[k]:
                        out.append(('torn-or-foreign-value', {'read': op[0]}, '%s reported %r=%r, values ever stored: %r' % (op[0], k, w, sorted(ever[k]))))
                for k in ever:
                    if all(k in s for s in states) and k not in d:
                        out.append(('present-key-missed', {'read': op[0]}, '%s %r misses %r which was present throughout' % (op[0], d, k)))
                if sc['backend'].startswith('file') and d not in states:
                    out.append(('not-a-complete-dictionary', {'read': op[0]}, '%s saw %r which is none of the dictionaries that existed %r' % (op[0], d, states)))
    return out


# ---------------------------------------------------------------------------
# exploration

def explore(task):
    """iterative preemption bounding; a scenario that turns out to be short (<= FULL_POINTS gated calls in total) is
    then explored again without a bound, i.e. with every interleaving"""
    res = explore_bounded(task)
    tier, sc, bound, maxexec = task
    if res.get('maxpoints', 99) <= FULL_POINTS[tier] and not res['caps']:
        full = explore_bounded((tier, sc, 999, maxexec))
        full['counts']['fully_interleaved_scenarios'] = 1
        for k, n in res['counts'].items():          # keep the bounded pass in the totals
            if k in ('transitions', 'evaluations', 'schedules'):
                full['counts'][k] = full['counts'].get(k, 0) + n
        full['violations'] = res['violations'] + [x for x in full['violations'] if x['sig'] not in [y['sig'] for y in res['violations']]]
        return full
    return res


FULL_POINTS = {'quick': 14, 'thorough': 18}


def explore_bounded(task):
    tier, sc, bound, maxexec = task
    name = '%s: %s' % (sc['backend'], sc['name'])
    res = {'counts': collections.Counter(), 'violations': [], 'samples': [], 'nontrivial': 0, 'outcomes': set(),
           'caps': [], 'config': name}
    srv = fsgate.server()
    base = {'backend': sc['backend'], 'prior': sc['prior'], 'actors': sc['actors'], 'reads': sc['backend'].startswith(('dir', 'file'))}
    stack = [([], None)]
    seen_traces = set()
    nexec = 0
    maxpoints = 0
    while stack:
        prefix, expect = stack.pop()
        if nexec >= maxexec:
            res['caps'].append('execution cap %d hit in %s' % (maxexec, name))
            break
        spec = dict(base)
        spec.update(root=pool.fresh_dir('g'), prefix=prefix)
        try:
            r = srv.request({'cmd': 'sched', 'spec': spec})
        finally:
            pool.rm(spec['root'])
        nexec += 1
        trace = r['trace']
        kinds = tuple((t[0][t[1]], t[2]) for t in trace)
        if expect is not None and kinds[:len(expect)] != expect:
            raise RuntimeError('nondeterminism not owned in %s: replaying prefix %r gave %r, expected %r' % (name, prefix, kinds[:len(expect)], expect))
        res['counts']['transitions'] += len(trace)
        res['counts']['evaluations'] += 1
        maxpoints = max(maxpoints, len(trace))
        if kinds in seen_traces:
            res['counts']['duplicate_schedules'] += 1
        seen_traces.add(kinds)
        found = check(sc, r)
        res['outcomes'].add(repr((r['results'], r['final'].get('asdict')))[:300])
        if found:
            for rule, extra, detail in found:
                sig = {'backend': sc['backend'], 'scenario': sc['name'], 'rule': rule}
                sig.update(extra)
                res['violations'].append(v(sig, '%s: %s | schedule %s' % (name, detail, _sched_text(trace)),
                                           {'scenario': sc, 'prefix': [t[1] for t in trace]}))
        if len(res['samples']) < 1 and len(prefix) > 0:
            res['samples'].append({'scenario': name, 'schedule': _sched_text(trace), 'results': repr(r['results'])[:200]})
        # children: deviate at every later point within the preemption bound
        choices = [t[1] for t in trace]
        cost = 0
        costs = []
        for t in trace:
            costs.append(cost)
            if t[4] and t[1] != 0:
                cost += 1
        for i in range(len(prefix), len(trace)):
            order, _, _, _, cur_enabled = trace[i]
            for alt in range(1, len(order)):
                c = costs[i] + (1 if cur_enabled else 0)
                if c > bound:
                    continue
                stack.append((choices[:i] + [alt], kinds[:i]))
    res['counts']['states'] = len(seen_traces)
    res['counts']['schedules'] = nexec
    res['nontrivial'] = len(seen_traces)
    res['maxpoints'] = maxpoints
    res['counts'] = dict(res['counts'])
    res['outcomes'] = sorted(res['outcomes'])
    res['config_summary'] = '%s [%s, %d schedules, <= %d points, %d outcomes]' % (
        name, 'all interleavings' if bound >= 999 else 'preemption bound %d' % bound, nexec, maxpoints, len(res['outcomes']))
    return res


def _sched_text(trace):
    out = []
    for order, choice, kind, path, cur in trace:
        out.append('%d:%s%s' % (order[choice], kind.split(':')[0], (' ' + path.rsplit('/', 1)[-1][:14]) if path and path != '-' else ''))
    return ' > '.join(out)


def run(tier, seed):
    rule = ('scenarios of 2-3 real processes on one store; every schedule with at most B preemptions (B reported per scenario), scheduling points = gated libc file-system calls '
            '(open/stat/listdir/read/write/close/mkdir/rename/unlink/rmdir, sqlite fcntl locks and sleeps); non-trivial = distinct schedules (sequences of (actor, call)) executed')
    rep = Report('C14', tier, seed, 'model_checking', rule, assumptions=[
        'each gated libc call is atomic (a single syscall); data accesses between scheduling points go through the kernel',
        'sqlite busy-waiting is modelled as blocking until another process unlocks or finishes; SQLite page I/O inside its lock protocol is trusted',
        'separate processes draw different temporary names (seeded per actor)',
    ])
    fsgate.ensure_built()
    tasks = []
    for sc in scenarios(tier):
        bound = sc.get('bound', 2 if tier == 'quick' else 3)
        if sc['backend'] == 'sql':
            bound = min(bound, 1 if tier == 'quick' else 2)
        tasks.append((tier, sc, bound, 2500 if tier == 'quick' else 12000))
    for res in pool.run_configs(explore, tasks, seed=seed):
        rep.merge(res)
        rep.extra['max_scheduling_points'] = max(rep.extra.get('max_scheduling_points', 0), res.get('maxpoints', 0))
    rep.extra['traces_validated_against_impl'] = rep.counts.get('schedules', 0)
    return rep.finish()


def replay(doc):
    pool._init_worker(pool.scratch_base())
    sc = doc['scenario']
    sc['prior'] = [tuple(o) for o in sc['prior']]
    for a in sc['actors']:
        a['ops'] = [tuple(tuple(tuple(z) if isinstance(z, list) else z for z in y) if isinstance(y, list) else y for y in o) for o in a['ops']]
    srv = fsgate.server()
    spec = {'backend': sc['backend'], 'prior': sc['prior'], 'actors': sc['actors'], 'reads': sc['backend'].startswith(('dir', 'file')),
            'root': pool.fresh_dir('g'), 'prefix': doc['prefix']}
    r = srv.request({'cmd': 'sched', 'spec': spec})
    print('schedule:', _sched_text(r['trace']))
    print('results:', r['results'])
    print('final:', r['final'].get('asdict'))
    found = check(sc, r)
    srv.close()
    return [({'rule': f[0]}, f[2]) for f in found]
