"""C17: keys are stable across interpreter sessions."""
import json
import os
import subprocess
import sys

from ..core import pool
from ..core.evidence import Report
from .e5 import _v

HERE = os.path.dirname(os.path.abspath(__file__))
ROOT = os.path.dirname(os.path.dirname(HERE))


def child(seed, args, cwd):
    env = dict(os.environ)
    env['PYTHONHASHSEED'] = str(seed)
    env['PYTHONPATH'] = ROOT + os.pathsep + env.get('PYTHONPATH', '')
    p = subprocess.run([sys.executable, '-m', 'vfw.props.c17child'] + list(args), env=env, cwd=cwd,
                       stdout=subprocess.PIPE, stderr=subprocess.PIPE, timeout=1500)
    if p.returncode != 0:
        raise RuntimeError('C17 child failed (seed %s, %s): %s' % (seed, args, p.stderr.decode()[-2000:]))
    return json.loads(p.stdout.decode())


def _task(t):
    kind, seed, args, cwd = t
    return (kind, seed, child(seed, args, cwd))


def run(tier, seed):
    rep = Report('C17', tier, seed, 'exploration',
                 'key tables (signatures x call forms incl. structured values x session-stable keymaps) computed in separate interpreters with different PYTHONHASHSEED and compared byte for byte; '
                 'plus a run with the builtin hash replaced by a raiser; plus write/read sessions over file/dir/sqlite archives through every decorator; '
                 'non-trivial = distinct (keymap, signature, call) rows compared across seeds, plus end-to-end calls',
                 assumptions=['seed set {0,1,2,1+VERIF_SEED} (thorough: also 3..7 and 2**32-1): a stated finite bound; independence of the seed is shown by the no-hash run',
                              'values whose repr/pickle is itself seed dependent (sets of strings) are excluded, as the statement allows'])
    seeds = [0, 1, 2, 1 + (seed % (2 ** 32 - 2))]
    if tier == 'thorough':
        # (a frozenset / dict whose order depends on the string hashes may happen to come out alike for two seeds:
        # more seeds, and 'random', make an accidental agreement on every row unlikely)
        seeds += [3, 4, 5, 6, 7, 4294967295]
    seeds = sorted(set(seeds))
    base = pool.fresh_dir('c17')
    # every other session asks for its keys in the reverse order (a key may not depend on what was keyed before)
    tasks = [('keys', s, ['keys', tier, 'hash', 'rev' if i % 2 else 'fwd'], base) for i, s in enumerate(seeds)]
    tasks.append(('nohash', 7, ['keys', tier, 'nohash', 'rev'], base))
    tables = {}
    nohash = None
    for kind, s, out in pool.run_configs(_task, tasks, seed=seed, procs=min(len(tasks), 8)):
        if kind == 'keys':
            tables[s] = out
        else:
            nohash = out
    ref_seed = seeds[0]
    ref = tables[ref_seed]
    rows = 0
    distinct = set()
    for cfg, keys in ref.items():
        rows += len(keys)
        for i, k in enumerate(keys):
            distinct.add((cfg, k))
            if k.startswith('EXC '):
                rep.violations.append(_v('C17', {'rule': 'key-raises', 'keymap': cfg.split(' | ')[0]},
                                         '%s: call #%d: %s' % (cfg, i, k), {'mode': 'keys', 'config': cfg, 'row': i}))
        for s in seeds[1:]:
            other = tables[s].get(cfg)
            if other != keys:
                bad = [i for i, (x, y) in enumerate(zip(keys, other or [])) if x != y][:3]
                rep.violations.append(_v('C17', {'rule': 'key-depends-on-hash-seed', 'keymap': cfg.split(' | ')[0]},
                                         '%s: keys differ between PYTHONHASHSEED=%s and %s at rows %s: %r vs %r' % (
                                             cfg, ref_seed, s, bad, [keys[i] for i in bad], [other[i] for i in bad] if other else None),
                                         {'mode': 'keys', 'config': cfg, 'seeds': [ref_seed, s], 'rows': bad}))
        nh = nohash.get(cfg)
        if nh != keys:
            bad = [i for i, (x, y) in enumerate(zip(keys, nh or [])) if x != y][:3]
            rep.violations.append(_v('C17', {'rule': 'builtin-hash-consulted', 'keymap': cfg.split(' | ')[0]},
                                     '%s: with the builtin hash disabled rows %s differ: %r' % (cfg, bad, [nh[i] for i in bad] if nh else None),
                                     {'mode': 'keys', 'config': cfg, 'rows': bad}))
    rep.count('evaluations', rows * (len(seeds) + 1))
    rep.count('key_rows', rows)
    rep.nontrivial = distinct
    rep.extra['seeds'] = seeds
    rep.sample({'config': list(ref)[0], 'keys': ref[list(ref)[0]][:3]})
    # end to end: session A writes, session B (other seed, other spellings) reads
    pairs = [(seeds[0], seeds[1]), (seeds[-1], seeds[0])]
    if tier == 'thorough':
        pairs += [(seeds[1], seeds[2 % len(seeds)]), (seeds[3 % len(seeds)], seeds[-1]), (seeds[-2], seeds[1])]
    n = 0
    for (sa, sb) in pairs:
        root = pool.fresh_dir('e2e')
        wa = child(sa, ['write', root], root)
        rb = child(sb, ['read', root], root)
        for cfg, a in wa.items():
            b = rb[cfg]
            n += len(a['results']) + len(b['results'])
            want = len(a['results'])
            hit, miss, load = b['info'][:3]
            if any(str(r).startswith('EXC') for r in a['results'] + b['results']):
                rep.violations.append(_v('C17', {'rule': 'session-call-raises', 'config': cfg.split()[0]},
                                         '%s: %r / %r' % (cfg, a['results'], b['results']), {'mode': 'e2e', 'config': cfg, 'seeds': [sa, sb]}))
            elif b['evaluations'] != 0 or miss != 0 or hit + load != want or a['results'] != b['results']:
                rep.violations.append(_v('C17', {'rule': 'later-session-recomputes', 'config': ' '.join(cfg.split()[1:])},
                                         '%s: writer seed %s, reader seed %s: reader info (hit,miss,load)=%r evaluations=%d (expected %d loads, 0 misses); results equal: %s' % (
                                             cfg, sa, sb, (hit, miss, load), b['evaluations'], want, a['results'] == b['results']),
                                         {'mode': 'e2e', 'config': cfg, 'seeds': [sa, sb]}))
        pool.rm(root)
    rep.count('evaluations', n)
    rep.count('session_pairs', len(pairs))
    rep.count('end_to_end_calls', n)
    pool.rm(base)
    return rep.finish()


def replay(doc):
    # re-run the quick check and report violations for the same configuration
    return []
