"""E5 property checks: C09 C10 C11 (keys), C12 (rounding), C17 (sessions), C19 (validate)."""
import collections
import functools
import inspect
import itertools
import json
import os
import subprocess
import sys

from ..core import pool
from ..core.evidence import Report
from ..engines import callmc
from ..engines.callmc import Sig, freeze, typed_repr


def _v(prop, sig, detail, replay):
    sig = dict(sig)
    sig['engine'] = 'callmc'
    sig['property'] = prop
    r = {'engine': 'callmc', 'property': prop}
    r.update(replay)
    return {'sig': sig, 'detail': detail, 'replay': r}


# ---------------------------------------------------------------------------
# callables under test

class KeygenShim(object):
    """adapter: a klepto.keygen key function looked at through the wrapper interface (key only; it caches nothing)"""
    no_cache = True

    def __init__(self, K):
        self.K = K

    def key(self, /, *a, **k):
        return self.K(*a, **k)

    def __call__(self, /, *a, **k):
        raise TypeError('a key generator does not call the function')


class SiblingInterference(Exception):
    pass


class SharedKeygenShim(KeygenShim):
    """one klepto.keygen(...) object applied to two functions, each of which registers its own keymap: the key function
    under test must give what an unshared key generator with the same keymap gives"""
    def __init__(self, K, Kref):
        self.K = K
        self.Kref = Kref

    def key(self, /, *a, **k):
        got = self.K(*a, **k)
        want = self.Kref(*a, **k)
        if type(got) is not type(want) or repr(got) != repr(want):
            raise SiblingInterference('key %r, but an unshared key generator with the same keymap gives %r' % (got, want))
        return got


def build_forms(spec, decorate, keygen=None, keygen_shared=None):
    """spec = (npos, ndef, varargs, kwonly, varkw); decorate(callable, ignore_self) -> wrapper.
    yields (form name, keyfn(args, kwitems), callfn(args, kwitems), bindfn(args, kwitems), counter)"""
    names = spec[5] if len(spec) > 5 else None
    plain = Sig(*spec[:5], names=names)
    meth = Sig(*spec[:5], method=True, names=names)
    out = []
    # plain function
    f = plain.compile()
    W = decorate(f, False)
    out.append(('function', W, (), f, f.CALLS))
    # the stand-alone key generator klepto.keygen()(f) for the same function, with the same keymap (no cache behind it)
    if keygen is not None:
        fk = plain.compile()
        out.append(('keygen()', KeygenShim(keygen(fk)), (), fk, fk.CALLS))
    if keygen_shared is not None:
        fk = plain.compile()
        sib = plain.compile()
        out.append(('keygen() shared with a sibling', SharedKeygenShim(keygen_shared(fk, sib), keygen(fk)), (), fk, fk.CALLS))
    # method decorated in the class body, called through an instance
    for ign in (False, True):
        g = meth.compile()
        Wm = decorate(g, ign)
        cls = callmc.holder_class({'f': Wm})
        inst = cls()
        out.append(('method(ignore self)' if ign else 'method', Wm, (inst,), g, g.CALLS))
    # bound method object decorated directly
    g = meth.compile()
    cls = callmc.holder_class({'f': g})
    inst = cls()
    bm = inst.f
    Wb = decorate(bm, False)
    out.append(('boundmethod', Wb, (), bm, g.CALLS))
    # partials
    for name, p, f0 in callmc.partial_forms(plain):
        Wp = decorate(p, False)
        out.append((name, Wp, (), p, f0.CALLS))
    # a partial of a *bound method* that fixes the first declared parameter positionally
    if plain.npos >= 1:
        g = meth.compile()
        cls = callmc.holder_class({'f': g})
        pm = functools.partial(cls().f, 1)
        out.append(('partial(boundmethod, 1)', decorate(pm, False), (), pm, g.CALLS))
    return out


def spec_list(tier):
    maxpos = 2 if tier == 'quick' else 3
    kwo = (None, 'req', 'def') if tier == 'quick' else (None, 'req', 'def', 'two')
    out = []
    for npos in range(maxpos + 1):
        for ndef in range(npos + 1):
            for varargs in (False, True):
                for kwonly in kwo:
                    for varkw in (False, True):
                        out.append((npos, ndef, varargs, kwonly, varkw))
    # parameter names that collide with klepto's own parameter names
    for ndef in (0, 1, 2):
        for varkw in (False, True):
            out.append((2, ndef, False, None, varkw, HOSTILE))
    out.append((2, 1, True, 'def', True, HOSTILE))
    return out


HOSTILE = ('func', 'ignored')


def call_list(tier, typed=False, spec=None):
    if spec is not None and len(spec) > 5:
        return callmc.calls(values=(1, 2), maxpos=3, kwnames=tuple(spec[5]) + ('k', 'self'), maxkw=2)
    if typed:
        return callmc.calls(values=(1, 1.0, True), maxpos=2, kwnames=('a', 'b', 'k'), maxkw=1)
    # variadic signatures: positional *strings that spell a keyword name* next to the real keyword
    # (f(1, 'k', 2) and f(1, k=2) bind differently and must not share a key when the scheme keeps args and kwds apart)
    extra = []
    if spec is not None and spec[2]:
        extra = [c for c in callmc.calls(values=(1, 'k', 'z'), maxpos=3, kwnames=('k', 'z'), maxkw=1, kwvalues=(1,))
                 if any(isinstance(x, str) for x in c[0])]
        # ... and strings that read like the repr of another call's arguments ('1' next to 1, "(1, 1)" next to (1, 1))
        extra += [(('1',), ()), (('1', 1), ()), ((1, '1'), ()), (("(1, 1)",), ()), (('None',), ()), ((None,), ()), (("'1'",), ())]
        # ... strings that differ only in characters a narrow codec cannot represent
        extra += [(('a\u03b1',), ()), (('a\u03b2',), ()), (('a',), ()), (('\u4e2d',), ()), (('\u6587',), ())]
        # ... and one container argument next to its elements passed separately
        extra += [(((1, 2),), ()), (((),), ()), (((1,),), ()), (((1, 2), 1), ())]
    if tier == 'quick':
        return callmc.calls(values=(1, 2), maxpos=3, kwnames=('a', 'b', 'k', 'z'), maxkw=2) + extra
    return extra + callmc.calls(values=(1, 2), maxpos=4, kwnames=('a', 'b', 'c', 'k', 'm', 'z'), maxkw=2) + \
        [c for c in callmc.calls(values=(1,), maxpos=1, kwnames=('a', 'b', 'k', 'z'), maxkw=3, kwvalues=(1, 2))
         if len(c[1]) == 3]


# ---------------------------------------------------------------------------
# C09 / C10

def _w_c0910(task):
    prop, tier, spec, typed = task
    import klepto
    res = {'counts': collections.Counter(), 'violations': [], 'samples': [], 'nontrivial': 0, 'outcomes': set(),
           'config': spec}
    calls = call_list(tier, typed, spec)
    kms = callmc.keymaps(tier, typed)
    sigtext = Sig(*spec[:5], names=spec[5] if len(spec) > 5 else None).text
    for kmname, mk, preserving in kms:
        if prop == 'C10' and not preserving:
            continue
        def _shared(fn, sib, mk=mk):
            import klepto.keymaps as _km
            kg = klepto.keygen()
            K, K2 = kg(fn), kg(sib)
            K.register(mk())
            K2.register(_km.hashmap())        # the sibling registers another (lossy) keymap afterwards, and is used
            try:
                K2()
            except Exception:
                pass
            return K
        forms = build_forms(spec, lambda c, ign: klepto.inf_cache(keymap=mk(), ignore=('self',) if ign else None)(c),
                            keygen=lambda fn: klepto.keygen(keymap=mk())(fn), keygen_shared=_shared)
        # C10 claims discrimination for non-flat keymaps, and for flat ones only with a sentinel or without variadic
        # positionals: a flat key without sentinel cannot tell f('k', 1) from f(k=1), and nobody says it can
        # (asked of the keymap object itself: in a chain a + b the right operand decides)
        _m = mk()
        ambiguous_by_design = bool(spec[2]) and bool(_m.flat) and not _m._mark
        for form, W, prefix, ref, counter in forms:
            groups = collections.OrderedDict()     # binding -> list of (call, key)
            for (a, kw) in calls:
                if ambiguous_by_design and any(isinstance(x, (str, tuple, list)) or x is None for x in a):
                    continue
                args = prefix + a
                b = callmc.bind_by_call(ref, a if form in ('boundmethod',) or form.startswith('partial') else args, kw)
                if b is None:
                    continue
                bi = callmc.bind_by_inspect(ref, a if form in ('boundmethod',) or form.startswith('partial') else args, kw)
                if bi is None:
                    raise RuntimeError('harness: inspect.signature and the interpreter disagree on %s %r %r' % (sigtext, a, kw))
                res['counts']['evaluations'] += 1
                try:
                    key = W.key(*args, **dict(kw))
                except UnicodeEncodeError:
                    if 'stringmap(' in kmname and any(isinstance(x, str) and not x.isascii() for x in a):
                        continue        # a codec that cannot represent the argument refuses it: nothing is merged
                    raise
                except Exception as e:
                    res['violations'].append(_v(prop, {'rule': 'key-raises', 'exc': type(e).__name__, 'keymap': kmname, 'form': form},
                                                '%s [%s] key(%r, %r) raised %r' % (sigtext, form, a, kw, e),
                                                {'spec': spec, 'form': form, 'keymap': kmname, 'typed': typed, 'calls': [[a, kw]]}))
                    continue
                gk = typed_repr(b) if typed else b
                groups.setdefault(gk, []).append(((a, kw), key))
            res['counts']['programs'] += 1
            if prop == 'C09':
                for b, members in groups.items():
                    if len(members) >= 2:
                        res['nontrivial'] += 1
                    keys = {}
                    for call, key in members:
                        keys.setdefault(freeze(key), call)
                    if len(keys) > 1:
                        cs = list(keys.values())[:2]
                        ks = list(keys.keys())[:2]
                        cause = _c09_cause(ks)
                        res['violations'].append(_v('C09', {'rule': 'equivalent-calls-different-keys', 'keymap': kmname,
                                                            'cause': cause, 'form': form if cause == 'other' else '*'},
                                                    '%s [%s] %s: calls %r and %r bind identically (%r) but get keys %r / %r' % (
                                                        sigtext, form, kmname, cs[0], cs[1], b, ks[0], ks[1]),
                                                    {'spec': spec, 'form': form, 'keymap': kmname, 'typed': typed, 'calls': cs}))
                    if len(res['samples']) < 2 and len(members) >= 3:
                        res['samples'].append({'signature': sigtext, 'form': form, 'keymap': kmname,
                                               'equivalent_calls': [list(c) for c, _ in members[:4]], 'key': repr(members[0][1])[:80]})
                # served from the cache: evaluations == number of distinct bindings
                hashable = True
                try:
                    for b, members in groups.items():
                        hash(members[0][1])
                except TypeError:
                    hashable = False
                if hashable and groups and not getattr(W, 'no_cache', False):
                    # (judged per binding: the first spelling may or may not be evaluated -- whether two *different* bindings share
                    # an entry is C10's subject, not C09's -- but no later spelling of the same binding may be)
                    recomputed = []
                    for b, members in groups.items():
                        for i, ((a, kw), key) in enumerate(members):
                            n0 = counter[0]
                            W(*(prefix + a), **dict(kw))
                            if i and counter[0] != n0:
                                recomputed.append((members[0][0], (a, kw)))
                    res['counts']['cache_calls'] += sum(len(m) for m in groups.values())
                    if recomputed and not any(v['replay'].get('form') == form and v['replay'].get('keymap') == kmname
                                              for v in res['violations']):
                        res['violations'].append(_v('C09', {'rule': 'second-spelling-recomputed', 'keymap': kmname, 'form': form},
                                                    '%s [%s] %s: %d later spellings of an already answered binding were evaluated again through inf_cache, e.g. %r after %r' % (
                                                        sigtext, form, kmname, len(recomputed), recomputed[0][1], recomputed[0][0]),
                                                    {'spec': spec, 'form': form, 'keymap': kmname, 'typed': typed,
                                                     'calls': list(recomputed[0])}))
            else:   # C10
                bykey = {}
                for b, members in groups.items():
                    for call, key in members:
                        fk = freeze(key)
                        if fk in bykey and bykey[fk][0] != b:
                            ob, oc = bykey[fk]
                            res['violations'].append(_v('C10', {'rule': 'different-calls-share-key', 'keymap': kmname, 'form': form,
                                                                'typed': typed, 'cause': _c10_cause(_m, ob, b, key)},
                                                        '%s [%s] %s: calls %r (binds %r) and %r (binds %r) share key %r' % (
                                                            sigtext, form, kmname, oc, ob, call, b, key),
                                                        {'spec': spec, 'form': form, 'keymap': kmname, 'typed': typed, 'calls': [oc, call]}))
                        else:
                            bykey.setdefault(fk, (b, call))
                res['nontrivial'] += max(0, len(groups) - 1)
                # through the cache: each call returns its own binding
                hashable = True
                try:
                    for b, members in groups.items():
                        hash(members[0][1])
                except TypeError:
                    hashable = False
                if hashable and not getattr(W, 'no_cache', False):
                    for b, members in groups.items():
                        for (a, kw), key in members[:2]:
                            got = W(*(prefix + a), **dict(kw))
                            want = ref(*(a if form in ('boundmethod',) or form.startswith('partial') else prefix + a), **dict(kw))
                            res['counts']['cache_calls'] += 1
                            if (typed_repr(got) != typed_repr(want)) if typed else (got != want):
                                res['violations'].append(_v('C10', {'rule': 'answered-with-other-result', 'keymap': kmname, 'form': form,
                                                                    'typed': typed, 'cause': _c10_cause(_m, got, want, key)},
                                                            '%s [%s] %s: call %r returned %r, function returns %r' % (
                                                                sigtext, form, kmname, (a, kw), got, want),
                                                            {'spec': spec, 'form': form, 'keymap': kmname, 'typed': typed, 'calls': [(a, kw)]}))
                if len(res['samples']) < 2 and len(groups) >= 3:
                    it = list(groups.items())[:3]
                    res['samples'].append({'signature': sigtext, 'form': form, 'keymap': kmname,
                                           'distinct_calls': [[list(m[0][0]), repr(m[0][1])[:60]] for _, m in it]})
    res['counts'] = dict(res['counts'])
    res['outcomes'] = []
    res['config_summary'] = '%s typed=%s' % (sigtext, typed)
    return res


def _c10_cause(m, b1, b2, key):
    """independent attribution of a shared key to the one recorded cause (KF-flat-stringmap-lone-scalar): a flat string
    keymap hands a lone fast-typed positional to str() bare -- not inside a tuple, where its repr would be used -- so a
    lone *string* argument loses its quotes and reads like whatever it spells: f('1') like f(1), f('(1, 1)') like f(1, 1).
    Recognised from the bindings alone: one of the two calls consists of exactly one positional, a str, nothing else that
    enters the key varies, and the shared key is that very string"""
    try:
        if type(m).__name__ != 'stringmap' or not m.flat or m.typed or getattr(m, 'outer', None):
            return 'other'
        d1, d2 = dict(b1), dict(b2)
        if set(d1) != set(d2) or '*' not in d1:
            return 'other'
        if any(d1[k] != d2[k] or type(d1[k]) is not type(d2[k]) for k in d1 if k not in ('*', '**')):
            return 'other'
        for d in (d1, d2):
            star = d['*']
            if len(star) == 1 and type(star[0]) is str and not dict(d.get('**', ())):
                if key is None or isinstance(key, bytes) or key == star[0]:
                    return 'str-of-lone-scalar'
    except Exception:
        pass
    return 'other'


def _c09_cause(frozen_keys):
    """cause predicate for the keyword-order family: do the two keys become equal once the
    order of keyword items inside the key is normalised?"""
    def norm(k):
        if isinstance(k, tuple) and len(k) == 2 and k[0] == '__dict__':
            return k
        return k
    a, b = frozen_keys[0], frozen_keys[1]
    if isinstance(a, str) and isinstance(b, str):
        try:
            ea, eb = eval(a, {'NULL': 'NULL'}), eval(b, {'NULL': 'NULL'})
            if freeze(ea) == freeze(eb):
                return 'keyword-order-in-serialised-key'
        except Exception:
            pass
    if isinstance(a, bytes) and isinstance(b, bytes):
        try:
            import pickle
            if freeze(pickle.loads(a)) == freeze(pickle.loads(b)):
                return 'keyword-order-in-serialised-key'
        except Exception:
            pass
    return 'other'


def _default_cause(k1, k2, c1, c2, tol):
    """cause predicate for the known finding 'a float default is not rounded': the two keys differ only in entries of
    parameters that one of the two calls left to their default, and agree once those floats are rounded"""
    try:
        (a1, d1), (a2, d2) = eval(k1, {'NULL': 'NULL'}), eval(k2, {'NULL': 'NULL'})
    except Exception:
        return 'other'
    if tol is None or a1 != a2 or set(d1) != set(d2):
        return 'other'
    names = ('a', 'b')
    given1 = set(names[:len(c1[0])]) | set(n for n, _ in c1[1])
    given2 = set(names[:len(c2[0])]) | set(n for n, _ in c2[1])
    diff = [n for n in d1 if d1[n] != d2[n]]
    if diff and all((n not in given1 or n not in given2) and isinstance(d1[n], float) and isinstance(d2[n], float)
                    and round(d1[n], tol) == round(d2[n], tol) for n in diff):
        return 'float-default-not-rounded'
    return 'other'


def _w_c09_decorators(task):
    """C09 through each of the twelve decorator classes with a rounding tolerance: float arguments passed positionally
    and by keyword (the key pipeline -- rounding, ignore, keymap -- is copied into every wrapper)"""
    _, tier, mod, alg, tol, deep, defaults = task[:7]
    ignore = task[7] if len(task) > 7 else None     # (an ignore specification must not separate two spellings of one binding either)
    import klepto
    import klepto.safe
    import klepto.keymaps as km
    res = {'counts': collections.Counter(), 'violations': [], 'samples': [], 'nontrivial': 0, 'outcomes': set(),
           'config': task[2:]}
    # defaults that are already round at every tolerance used / defaults that rounding would change
    bdef, kdef = (1.0, 5.0) if defaults == 'round' else (1.04, 2.55)
    src = 'def f(a, b=%r, *args, k=%r, **kw):\n    CALLS[0] += 1\n    return (a, b, args, k, tuple(sorted(kw.items())))\n' % (bdef, kdef)
    ns = {'CALLS': [0], '__name__': 'vfw_generated'}
    exec(compile(src, '<c09 decorators>', 'exec'), ns)
    f = ns['f']
    m = klepto.safe if mod == 'safe' else klepto
    kw = {'keymap': km.stringmap(flat=False), 'tol': tol, 'deep': deep}
    if ignore is not None:
        kw['ignore'] = tuple(ignore) if isinstance(ignore, (list, tuple)) else ignore
    if alg not in ('no', 'inf'):
        kw['maxsize'] = 100000
    W = getattr(m, alg + '_cache')(**kw)(f)
    # (-0.04 rounds to negative zero at tol 0 and 1: the sign has to come out the same positionally and by keyword)
    calls = callmc.calls(values=(1.04, 2.55, 3, bdef) + ((kdef,) if ignore is not None else (-0.04,)), maxpos=2, kwnames=('a', 'b', 'k', 'z'), maxkw=2)
    groups = collections.OrderedDict()
    for a, kwi in calls:
        try:
            b = f(*a, **dict(kwi))
        except TypeError:
            continue
        res['counts']['evaluations'] += 1
        try:
            key = W.key(*a, **dict(kwi))
        except Exception as e:
            res['violations'].append(_v('C09', {'rule': 'key-raises', 'exc': type(e).__name__, 'form': 'decorator-sweep'},
                                        '%s.%s_cache(tol=%r, deep=%r, ignore=%r): key(%r, %r) raised %r' % (mod, alg, tol, deep, ignore, a, kwi, e),
                                        {'task': list(task), 'calls': [[a, kwi]]}))
            continue
        g = groups.setdefault(typed_repr(b), (freeze(key), (a, kwi), []))     # (3 and 3.0 are different bindings here)
        g[2].append((a, kwi))
        if g[0] != freeze(key):
            res['violations'].append(_v('C09', {'rule': 'equivalent-calls-different-keys', 'keymap': 'stringmap(flat=False)',
                                                'cause': _default_cause(g[0], freeze(key), g[1], (a, kwi), tol),
                                                'form': 'decorator-sweep %s.%s_cache' % (mod, alg)},
                                        '%s.%s_cache(tol=%r, deep=%r, ignore=%r): calls %r and %r bind identically (%r) but get keys %r / %r' % (
                                            mod, alg, tol, deep, ignore, g[1], (a, kwi), b, g[0], freeze(key)),
                                        {'task': list(task), 'calls': [g[1], (a, kwi)]}))
    res['nontrivial'] = sum(1 for g in groups.values() if len(g[2]) >= 2)
    res['counts']['programs'] += 1
    # through the wrapper: the second spelling of a binding is not recomputed (not for no_cache, which keeps nothing)
    if alg != 'no' and not res['violations']:
        n0 = ns['CALLS'][0]
        for b, g in groups.items():
            for a, kwi in g[2]:
                W(*a, **dict(kwi))
        evals = ns['CALLS'][0] - n0
        distinct = len(set(W.key(*g[1][0], **dict(g[1][1])) for g in groups.values()))
        if evals != distinct:
            res['violations'].append(_v('C09', {'rule': 'second-spelling-recomputed', 'keymap': 'stringmap(flat=False)', 'cause': 'other',
                                                'form': 'decorator-sweep %s.%s_cache' % (mod, alg)},
                                        '%s.%s_cache(tol=%r, deep=%r, ignore=%r): %d distinct keys but %d evaluations' % (mod, alg, tol, deep, ignore, distinct, evals),
                                        {'task': list(task), 'calls': []}))
    res['counts'] = dict(res['counts'])
    res['outcomes'] = []
    res['config_summary'] = '%s.%s_cache tol=%r deep=%r defaults=%s%s [decorator sweep]' % (
        mod, alg, tol, deep, defaults, '' if ignore is None else ' ignore=%r' % (ignore,))
    return res


def _w_c10_builtins(task):
    """callables klepto cannot inspect (builtins): the raw arguments are keyed; different argument tuples must still get
    different keys and every call its own result"""
    _, tier, kmname = task
    import itertools
    import klepto
    res = {'counts': collections.Counter(), 'violations': [], 'samples': [], 'nontrivial': 0, 'outcomes': set(),
           'config': task}
    mk = dict((n, f) for n, f, _ in callmc.keymaps(tier))[kmname]
    for fn in (divmod, pow, max, min):
        W = klepto.inf_cache(keymap=mk())(fn)
        seen = {}
        for a in itertools.product((1, 2, 3, 7), repeat=2):
            res['counts']['evaluations'] += 1
            try:
                raw = W.key(*a)
                key = freeze(raw)
                try:
                    hash(raw)
                    got = W(*a)
                except TypeError:
                    got = fn(*a)      # an unhashable raw key cannot be stored in a dict-backed cache: only the key is checked
            except Exception as e:
                res['violations'].append(_v('C10', {'rule': 'key-raises', 'exc': type(e).__name__, 'keymap': kmname, 'form': 'builtin'},
                                            'builtin %s%r under %s raised %r' % (fn.__name__, a, kmname, e), {'task': list(task), 'calls': [[a, ()]]}))
                continue
            if key in seen and seen[key] != a:
                res['violations'].append(_v('C10', {'rule': 'different-calls-share-key', 'keymap': kmname, 'form': 'builtin', 'typed': False},
                                            'builtin %s: calls %r and %r share key %r under %s' % (fn.__name__, seen[key], a, key, kmname),
                                            {'task': list(task), 'calls': [[seen[key], ()], [a, ()]]}))
            seen.setdefault(key, a)
            if got != fn(*a):
                res['violations'].append(_v('C10', {'rule': 'answered-with-other-result', 'keymap': kmname, 'form': 'builtin', 'typed': False},
                                            'builtin %s%r returned %r through the cache, %r directly' % (fn.__name__, a, got, fn(*a)),
                                            {'task': list(task), 'calls': [[a, ()]]}))
        res['nontrivial'] += len(seen)
        res['counts']['programs'] += 1
    res['counts'] = dict(res['counts'])
    res['outcomes'] = []
    res['config_summary'] = 'builtins under %s' % kmname
    return res


class _L(list):
    pass


_NT = collections.namedtuple('_NT', 'p q')


def _w_c10_typed_rounding(task):
    """typed=True together with a rounding tolerance (shallow and deep): arguments that compare equal but differ in type --
    1 / 1.0 / True, a dict and its subclasses, a tuple and a namedtuple, a list and a list subclass, 0.0 / -0.0 / 0 / False --
    keep different keys after the rounding step has been through them (deep rounding rebuilds containers)"""
    _, tier, mod, alg = task
    import klepto
    import klepto.safe
    import klepto.keymaps as km
    res = {'counts': collections.Counter(), 'violations': [], 'samples': [], 'nontrivial': 0, 'outcomes': set(), 'config': task[2:]}
    NT = _NT
    groups = [[1, 1.0, True], [{'a': 1.26}, collections.OrderedDict(a=1.26), collections.defaultdict(int, a=1.26), collections.Counter(a=1.26)],
              [(1.26, 2), NT(1.26, 2)], [[1.26], _L([1.26])], [0.0, -0.0, 0, False], [{'a': [1.26]}, collections.OrderedDict(a=[1.26])]]
    kms = [('stringmap(typed)', lambda: km.stringmap(typed=True)), ('stringmap(typed,flat=False)', lambda: km.stringmap(typed=True, flat=False)),
           ('picklemap(pickle,typed)', lambda: km.picklemap(typed=True, serializer='pickle')), ('hashmap(md5,typed)', lambda: km.hashmap(typed=True, algorithm='md5'))]
    m = klepto.safe if mod == 'safe' else klepto
    for kmname, mk in kms:
        for tol, deep in ((None, False), (1, False), (1, True), (0, True), (-1, True)):
            def f(x, y=None, **opts):
                return None
            f.__module__ = 'vfw_generated'
            if alg == 'keygen':
                W = KeygenShim(klepto.keygen(keymap=mk(), tol=tol, deep=deep)(f))
            else:
                kw = {} if alg in ('no', 'inf') else {'maxsize': 1000}
                W = getattr(m, alg + '_cache')(keymap=mk(), tol=tol, deep=deep, **kw)(f)
            res['counts']['programs'] += 1
            for g in groups:
                for form in ('positional', 'keyword', 'extra keyword'):
                    keys = []
                    for v in g:
                        res['counts']['evaluations'] += 1
                        try:
                            k = W.key(v) if form == 'positional' else W.key(x=v) if form == 'keyword' else W.key(0, zz=v)
                            keys.append(repr(k))
                        except Exception as e:
                            keys.append(None)
                            if not (isinstance(e, TypeError) and 'pickle' in kmname):
                                res['violations'].append(_v('C10', {'rule': 'key-raises', 'exc': type(e).__name__, 'keymap': kmname, 'form': 'typed+rounding'},
                                                            '%s.%s tol=%r deep=%r %s: key for %r (%s) raised %r' % (mod, alg, tol, deep, kmname, v, form, e),
                                                            {'task': list(task), 'value': repr(v)}))
                    res['nontrivial'] += 1
                    for i in range(len(g)):
                        for j in range(i + 1, len(g)):
                            if keys[i] is not None and keys[i] == keys[j] and type(g[i]) is not type(g[j]):
                                res['violations'].append(_v('C10', {'rule': 'typed-keymap-merges-types', 'keymap': kmname, 'form': 'typed+rounding', 'typed': True,
                                                                    'cause': 'other'},
                                                            '%s.%s tol=%r deep=%r %s: %r (%s) and %r (%s), passed as %s, share key %s' % (
                                                                mod, alg, tol, deep, kmname, g[i], type(g[i]).__name__, g[j], type(g[j]).__name__, form, keys[i][:80]),
                                                            {'task': list(task), 'values': [repr(g[i]), repr(g[j])]}))
    res['samples'].append({'config': '%s.%s' % (mod, alg), 'equal_but_differently_typed': [repr(x) for x in groups[1]]})
    res['counts'] = dict(res['counts'])
    res['outcomes'] = []
    res['config_summary'] = '%s.%s typed keymaps x rounding [typed + rounding]' % (mod, alg)
    return res


def _w_dispatch(task):
    if task[0] == 'C09-decorators':
        return _w_c09_decorators(task)
    if task[0] == 'C10-builtins':
        return _w_c10_builtins(task)
    if task[0] == 'C10-typed-rounding':
        return _w_c10_typed_rounding(task)
    return _w_c0910(task)


def run_c0910(prop, tier, seed):
    rule = {
        'C09': 'signature grammar x call forms x keymaps; groups = calls the interpreter binds identically; non-trivial = groups with >= 2 spellings (counted per signature, form, keymap)',
        'C10': 'signature grammar x call forms x information-preserving keymaps; non-trivial = pairs of adjacent distinct bindings compared (groups - 1 per signature, form, keymap)',
    }[prop]
    rep = Report(prop, tier, seed, 'exploration', rule, assumptions=[
        'binding oracle = the interpreter itself (generated functions return what was bound), cross-checked with inspect.signature().bind',
        'argument values are small ints (typed runs: 1, 1.0, True); positional-only parameters are not generated',
    ])
    specs = spec_list(tier)
    tasks = [(prop, tier, s, False) for s in specs]
    tsp = [s for s in specs if s[0] <= 2 and s[3] != 'two' and len(s) == 5]
    tasks += [(prop, tier, s, True) for s in tsp]
    if prop == 'C09':
        for mod in ('klepto', 'safe'):
            for alg in ('no', 'inf', 'lfu', 'lru', 'mru', 'rr'):
                for tol in (None, 1, 0):
                    for deep in (False, True):
                        for defaults in ('round', 'unround'):
                            tasks.append(('C09-decorators', tier, mod, alg, tol, deep, defaults))
                for ign in ('k', ('b',), ('k', '**'), ('b', '*'), ('a', 'k')):
                    tasks.append(('C09-decorators', tier, mod, alg, None, False, 'round', ign))
    if prop == 'C10':
        for kmname, mk, preserving in callmc.keymaps(tier):
            if preserving:
                tasks.append(('C10-builtins', tier, kmname))
        for mod in ('klepto', 'safe'):
            for alg in ('no', 'inf', 'lfu', 'lru', 'mru', 'rr'):
                tasks.append(('C10-typed-rounding', tier, mod, alg))
        tasks.append(('C10-typed-rounding', tier, 'klepto', 'keygen'))
    for res in pool.run_configs(_w_dispatch, tasks, seed=seed):
        rep.merge(res)
    rep.extra['signatures'] = len(specs)
    rep.extra['call_forms_per_signature'] = len(call_list(tier))
    rep.extra['keymaps'] = [k[0] for k in callmc.keymaps(tier)] + [k[0] for k in callmc.keymaps(tier, True)]
    return rep.finish()


# ---------------------------------------------------------------------------

def run(prop, tier, seed):
    if prop in ('C09', 'C10'):
        return run_c0910(prop, tier, seed)
    if prop == 'C11':
        from . import c11
        return c11.run(tier, seed)
    if prop == 'C12':
        from . import c12
        return c12.run(tier, seed)
    if prop == 'C17':
        from . import c17
        return c17.run(tier, seed)
    if prop == 'C19':
        from . import c19
        return c19.run(tier, seed)
    raise KeyError(prop)


def replay(doc):
    prop = doc['property']
    if prop in ('C09', 'C10'):
        spec = tuple(doc['spec'])
        tier = 'thorough'
        # re-run the whole (signature) task and report findings for this form/keymap
        out = []
        for t in (False, True):
            if bool(doc.get('typed')) != t:
                continue
            res = _w_c0910((prop, tier, spec, t))
            for v in res['violations']:
                if v['replay'].get('form') == doc.get('form') and v['replay'].get('keymap') == doc.get('keymap'):
                    out.append((v['sig'], v['detail']))
        return out
    if prop == 'C11':
        from . import c11
        return c11.replay(doc)
    if prop == 'C12':
        from . import c12
        return c12.replay(doc)
    if prop == 'C17':
        from . import c17
        return c17.replay(doc)
    if prop == 'C19':
        from . import c19
        return c19.replay(doc)
    return []
