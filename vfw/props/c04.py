"""C04: persistence -- a fresh handle or process sees exactly what was written.

Runs the C03 exploration on persistent backends and, after every transition
(hook EXTRA['C04']), re-reads the store through
  (a) a fresh handle built by the constructor, (b) copy(), (c) a dill / pickle
  round trip of the handle (where the type supports it), (d) a long-lived reader
  process (another process, fresh handle per request);
and once per newly discovered state replays the history in a forked writer that
calls os._exit(0) right after the last operation returns, then reads the store
from the parent (nothing may sit in a buffer or an open transaction).
"""
import collections
import json
import os
import pickle
import struct
import sys

from ..core import pool
from ..core.evidence import Report
from ..engines import archmc
from ..engines.archmc import BACKENDS, open_backend, contents, compare_contents, describe
from . import e2

_reader = {}


def _reader_loop(rfd, wfd):
    import gc
    gc.disable()      # never finalise objects inherited from the parent (e.g. its sqlite connections)
    os.chdir(pool.scratch_base())      # a working directory that outlives every scenario
    rf = os.fdopen(rfd, 'rb')
    wf = os.fdopen(wfd, 'wb')
    while True:
        hdr = rf.read(4)
        if len(hdr) < 4:
            os._exit(0)
        n = struct.unpack('<I', hdr)[0]
        backend, root = pickle.loads(rf.read(n))
        try:
            h = open_backend(backend, root, 'arch', False)
            c = contents(h)
            st = h.state
            archmc.close(h)
            if isinstance(c, BaseException):
                out = ('exc', repr(c))
            else:
                out = ('ok', [(k, v) for k, v in c.items()], _state_view(st))
            data = e2._enc(out)
        except BaseException as e:
            data = e2._enc(('exc', repr(e)))
        data = data.encode()
        wf.write(struct.pack('<I', len(data)) + data)
        wf.flush()


def reader_request(backend, root):
    r = _reader.get(os.getpid())
    if r is None:
        p2c_r, p2c_w = os.pipe()
        c2p_r, c2p_w = os.pipe()
        pid = os.fork()
        if pid == 0:
            os.close(p2c_w)
            os.close(c2p_r)
            try:
                _reader_loop(p2c_r, c2p_w)
            finally:
                os._exit(0)
        os.close(p2c_r)
        os.close(c2p_w)
        r = (pid, os.fdopen(p2c_w, 'wb'), os.fdopen(c2p_r, 'rb'))
        _reader[os.getpid()] = r
    pid, wf, rf = r
    data = pickle.dumps((backend, root))
    wf.write(struct.pack('<I', len(data)) + data)
    wf.flush()
    n = struct.unpack('<I', rf.read(4))[0]
    return e2._dec(rf.read(n).decode())


def _state_view(st):
    return {k: (os.path.basename(v) if k in ('id', 'root') and isinstance(v, str) else v) for k, v in dict(st).items()}


_seen_states = {}


def extra(S, cfg, hist, op, res):
    """called after every transition that the dict comparison accepted"""
    out = []
    backend = cfg['backend']
    base = {'engine': 'archmc', 'backend': backend, 'op': op[0], 'cached': False}

    def bad(rule, reader, detail):
        sig = dict(base)
        sig['rule'] = rule
        sig['reader'] = reader
        sig['alias'] = False
        out.append((sig, detail))

    a = S.a
    try:
        wstate = _state_view(a.state)
    except Exception as e:
        bad('state-raises', 'writer', 'reading .state raised %r' % (e,))
        return out
    readers = []
    # (a) fresh handle from the constructor
    try:
        h = open_backend(backend, S.root, 'arch', False)
        readers.append(('fresh-handle', h))
    except Exception as e:
        bad('open-raises', 'fresh-handle', 'opening a fresh handle raised %r' % (e,))
    # (b) copy()
    try:
        readers.append(('copy()', a.copy()))
    except Exception as e:
        bad('open-raises', 'copy()', 'copy() raised %r' % (e,))
    # (c) serialised handle
    fam = BACKENDS[backend][0]
    if fam in ('file', 'dir') and backend not in archmc.RELNAME:
        import dill
        cwd = os.getcwd()
        for name, mod in (('dill', dill), ('pickle', pickle)):
            try:
                os.chdir(S.root)        # unpickling a dir_archive creates ./<basename> as a side effect
                readers.append((name + ' round trip', mod.loads(mod.dumps(a))))
            except Exception as e:
                bad('open-raises', name, '%s round trip of the handle raised %r' % (name, e))
            finally:
                os.chdir(cwd)
    # (c') stores opened by a relative name: the process moves to another working directory; the live handle, a copy,
    # an unpickled handle and a handle rebuilt from .state must all still address the store that was opened
    if backend in archmc.RELNAME:
        import dill
        cwd = os.getcwd()
        other = os.path.join(S.root, 'elsewhere')
        os.makedirs(other, exist_ok=True)
        os.chdir(other)
        try:
            res['counts']['fresh_reads'] += 1
            for p in compare_contents(contents(a), S.m, 'seen through the same handle after chdir, after %s' % (e2._opr(op),)):
                bad('fresh-reader-differs', 'same-handle-after-chdir', p)
            try:
                readers.append(('copy() after chdir', a.copy()))
            except Exception as e:
                bad('open-raises', 'copy() after chdir', 'copy() raised %r' % (e,))
            if fam in ('file', 'dir'):
                try:
                    readers.append(('dill round trip after chdir', dill.loads(dill.dumps(a))))
                except Exception as e:
                    bad('open-raises', 'dill after chdir', 'dill round trip raised %r' % (e,))
            try:
                arch = getattr(a, 'archive', a)
                st = dict(arch.state)
                if fam == 'sql':
                    readers.append(('rebuilt from .state after chdir', type(arch)(database=st['root'], table=st['id'])))
                else:
                    ident = st.pop('id')
                    readers.append(('rebuilt from .state after chdir', type(arch)(ident, **st)))
            except Exception as e:
                bad('open-raises', 'rebuilt from .state', 'type(a)(id, **state) raised %r' % (e,))
        finally:
            os.chdir(cwd)
    for name, h in readers:
        res['counts']['fresh_reads'] += 1
        c = contents(h)
        for p in compare_contents(c, S.m, 'seen through %s after %s' % (name, e2._opr(op))):
            bad('fresh-reader-differs', name, p)
        try:
            st = _state_view(h.state)
            if st != wstate:
                bad('state-differs', name, 'state of %s %r != writer state %r' % (name, st, wstate))
        except Exception as e:
            bad('state-raises', name, '.state raised %r' % (e,))
        if h is not a:
            archmc.close(h)
    # (d) another process
    ans = reader_request(backend, S.root)
    res['counts']['other_process_reads'] += 1
    if ans[0] != 'ok':
        bad('fresh-reader-differs', 'reader-process', 'reader process failed: %s' % (ans[1],))
    else:
        c = {}
        for k, v in ans[1]:
            c[k] = v
        for p in compare_contents(c, S.m, 'seen by another process after %s' % (e2._opr(op),)):
            bad('fresh-reader-differs', 'reader-process', p)
        if ans[2] != wstate:
            bad('state-differs', 'reader-process', 'state %r != writer state %r' % (ans[2], wstate))
    # (e) writer exits right after the last operation (once per state)
    key = (os.getpid(), e2.cfg_name(cfg), S.state_key())
    if key not in _seen_states:
        _seen_states[key] = True
        root2 = pool.fresh_dir('x')
        pid = os.fork()
        if pid == 0:
            try:
                S2 = e2.ASys.__new__(e2.ASys)
                S2.__dict__.update(cfg=cfg, backend=backend, cached=False, keys=cfg['keys'], values=cfg['values'],
                                   root=root2, fam=fam, ncopy=0, om={}, m={}, last_mutable=None)
                S2.other = open_backend(backend, root2, 'arch2', False)
                S2.a = open_backend(backend, root2, 'arch', False)
                for o in hist + [op]:
                    e2.apply_op(S2, o, 'C04x')
            finally:
                os._exit(0)
        os.waitpid(pid, 0)
        res['counts']['writer_exit_reads'] += 1
        try:
            h = open_backend(backend, root2, 'arch', False)
            c = contents(h)
            for p in compare_contents(c, S.m, 'after the writer process exited (history %s)' % ([list(e2._opr(o)) for o in hist + [op]],)):
                bad('fresh-reader-differs', 'after-writer-exit', p)
            archmc.close(h)
        except Exception as e:
            bad('open-raises', 'after-writer-exit', 'opening after writer exit raised %r' % (e,))
        pool.rm(root2)
    return out


e2.EXTRA['C04'] = extra


def run(tier, seed):
    rule = ('C03 exploration on persistent backends; after every transition the store is re-read by a constructor-built handle, copy(), '
            'dill/pickle round trips of the handle and a separate long-lived reader process; every new state is replayed in a forked writer that _exit()s at once; '
            'non-trivial = transition of a state with >= 1 entry (so a reader other than the writer has something to see)')
    rep = Report('C04', tier, seed, 'model_checking', rule, assumptions=[
        'another process = forked child that builds its own handles (sqlite connections are never shared)',
        'process exit modelled by os._exit(0) immediately after the operation returns (no atexit / finalizers run)',
    ])
    depth, states = (3, 120) if tier == 'quick' else (4, 1200)
    cfgs = e2.c04_configs(tier)
    if tier == 'quick':
        # one key triple per backend (the dict refinement itself is C03's job)
        seen = set()
        keep = []
        for c in cfgs:
            if c.get('narrow'):
                continue
            if c['backend'] in seen and c['values'] != (None, [1, {'x': 2.5}]):
                continue
            seen.add(c['backend'])
            keep.append(c)
        cfgs = keep
    tasks = [('C04', c, depth if BACKENDS[c['backend']][0] != 'sql' else min(depth, 3), states) for c in cfgs]
    for res in pool.run_configs(e2.explore, tasks, seed=seed):
        rep.merge(res)
    # re-decoration in a later process is served from the archive
    n, bad = redecorate_sessions(tier)
    rep.count('redecorated_session_calls', n)
    rep.count('evaluations', n)
    for v in bad:
        rep.violations.append(v)
    return rep.finish()


def redecorate_sessions(tier):
    from . import c17
    root = pool.fresh_dir('sess')
    out = []
    n = 0
    try:
        wa = c17.child(0, ['write', root, 'c04'], root)
        rb = c17.child(0, ['read', root, 'c04'], root)
        for cfg, a in wa.items():
            b = rb[cfg]
            n += len(a['results']) + len(b['results'])
            hit, miss, load = b['info'][:3]
            if b['evaluations'] != 0 or miss != 0 or a['results'] != b['results']:
                out.append(e2._v('C04', {'engine': 'archmc', 'rule': 're-decorated-function-recomputes', 'config': ' '.join(cfg.split()[1:])},
                                 '%s: function re-created on the archive in a new process: info=%r evaluations=%d, results equal=%s' % (
                                     cfg, b['info'], b['evaluations'], a['results'] == b['results']),
                                 {'engine': 'archmc', 'mode': 'sessions', 'config': cfg}))
    finally:
        pool.rm(root)
    return n, out
