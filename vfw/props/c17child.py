"""child interpreter for C17 (run with its own PYTHONHASHSEED)."""
import json
import os
import sys


class Tagged(object):
    """an argument type defined in the session's own __main__ (this module is run with -m): pickled by reference it is
    process independent; its body holds a set of strings, whose order is not"""
    TAGS = frozenset(['alpha', 'beta', 'gamma', 'delta', 'epsilon'])
    KINDS = {'red', 'green', 'blue', 'cyan'}

    def __init__(self, n):
        self.n = n

    def __repr__(self):
        return 'Tagged(%r)' % (self.n,)

    def __eq__(self, other):
        return isinstance(other, Tagged) and other.n == self.n

    def __hash__(self):
        return 17 + self.n


def keymap_table(tier):
    import klepto.keymaps as km
    import pickle as _pickle
    import json as _json
    import dill as _dill
    S = km.SENTINEL
    t = [
        # serializers given as module objects (the documented form) as well as by name
        ('picklemap(dill as module object)', lambda: km.picklemap(serializer=_dill)),
        ('picklemap(pickle as module object,flat=False)', lambda: km.picklemap(serializer=_pickle, flat=False)),
        ('picklemap(json as module object)', lambda: km.picklemap(serializer=_json)),
        ('keymap()', lambda: km.keymap()),
        ('keymap(flat=False)', lambda: km.keymap(flat=False)),
        ('keymap(typed)', lambda: km.keymap(typed=True)),
        ('stringmap()', lambda: km.stringmap()),
        ('stringmap(flat=False)', lambda: km.stringmap(flat=False)),
        ('stringmap(typed,flat=False)', lambda: km.stringmap(typed=True, flat=False)),
        ('picklemap()', lambda: km.picklemap()),
        ('picklemap(pickle)', lambda: km.picklemap(serializer='pickle')),
        ('picklemap(pickle,flat=False)', lambda: km.picklemap(serializer='pickle', flat=False)),
        ('picklemap(dill)', lambda: km.picklemap(serializer='dill')),
        ('picklemap(json)', lambda: km.picklemap(serializer='json')),
        ('hashmap(md5)', lambda: km.hashmap(algorithm='md5')),
        ('hashmap(md5,flat=False)', lambda: km.hashmap(algorithm='md5', flat=False)),
        ('hashmap(sha1,typed)', lambda: km.hashmap(algorithm='sha1', typed=True)),
        ('hashmap(sha256,sentinel)', lambda: km.hashmap(algorithm='sha256', sentinel=S)),
        ('stringmap+md5', lambda: km.stringmap(flat=False) + km.hashmap(algorithm='md5')),
    ]
    return t


def option_sweep():
    """one keymap per option value klepto advertises: every named hash algorithm (klepto.crypto.algorithms(), plus
    upper-case aliases hashlib.new accepts), every serializer, a handful of string encodings.  Explored on one
    variadic signature (the call set is the same)"""
    import klepto.keymaps as km
    import klepto.crypto as kc
    out = []
    algs = sorted(a for a in kc.algorithms() if a and not a.startswith('shake_'))     # shake_* need a length: they raise
    for a in algs + ['SHA256', 'MD5']:
        out.append(('hashmap(%s)' % a, lambda a=a: km.hashmap(algorithm=a)))
    for ser in sorted(x for x in kc.serializers() if x):
        out.append(('picklemap(%s,flat=False)' % ser, lambda ser=ser: km.picklemap(serializer=ser, flat=False)))
    for enc in ('utf-8', 'ascii', 'latin-1', 'utf-16', 'cp437'):
        out.append(('stringmap(%s)' % enc, lambda enc=enc: km.stringmap(encoding=enc)))
    return out


def structured_values():
    return ['s', 'two words', b'by', 1.5, -0.0, 10 ** 20, None, True, (1, 'a'), ((1, 2), ('x', 2.5)), [1, 'l'],
            {'k': 1, 'j': [2.5, 'v']}, {'b': 1, 'a': 2}, frozenset([1]), ('nest', [1, {'d': (None,)}]), Tagged(3), [Tagged(1), 'x']]


def functions():
    src = [
        'def f(a, b=1): return None',
        'def f(a, b=1, *args, **kw): return None',
        'def f(a=1, *, k=1, **kw): return None',
        'def f(*args, k, **kw): return None',
        'def f(a, b, c=3, *, k=1, m=2): return None',
    ]
    out = []
    for s in src:
        ns = {}
        exec(s, ns)
        out.append((s, ns['f']))
    return out


def call_sets(tier):
    import itertools
    from vfw.engines import callmc
    small = callmc.calls(values=(1, 2), maxpos=3, kwnames=('a', 'b', 'k', 'z'), maxkw=2)
    vals = structured_values()
    struct = []
    for v in vals:
        struct.append(((v,), ()))
        struct.append(((), (('a', v),)))
        struct.append(((1, v), ()))
        struct.append(((v,), (('k', v),)))
        struct.append(((), (('k', v), ('a', v))))
        struct.append(((), (('a', v), ('k', v))))
    if tier == 'thorough':
        for v, w in itertools.permutations(vals, 2):
            struct.append(((v, w), ()))
            struct.append(((v,), (('z', w), ('k', 1))))
    # arguments that compare equal but are different values to a serialising keymap (and have different bytes): a key may
    # not depend on which of them this process has keyed before
    twins = [((v,), ()) for v in (True, 1.0, 0.0, -0.0, 0, False)] + [((1, v), ()) for v in (True, 1.0, -0.0, 0.0)] + \
            [((), (('a', v),)) for v in (1.0, True, -0.0, 0.0)]
    return small + twins + struct


def keys_mode(tier, nohash, order='fwd'):
    import inspect
    import klepto
    import klepto.crypto
    if nohash:
        def raiser(obj):
            raise RuntimeError('builtin hash consulted')
        klepto.crypto.__dict__['__hash'] = raiser
    out = {}
    calls = call_sets(tier)
    table = [(n, mk, False) for n, mk in keymap_table(tier)] + [(n, mk, True) for n, mk in option_sweep()]
    for kmname, mk, sweep in table:
        for src, f in (functions()[1:2] if sweep else functions()):
            m = mk()
            if order == 'rev':
                # in every other session somebody builds a longer chain on top of this keymap object before it is used
                # (a + m is a new keymap; m itself stays what it was)
                try:
                    import klepto.keymaps as _km
                    _km.picklemap(serializer='pickle') + m
                except Exception:
                    pass
            W = klepto.inf_cache(keymap=m)(f)
            rows = {}
            # (the table is indexed by call; the *order* in which this session asks for the keys is another session's order
            # reversed -- the key of a call may not depend on what the process has keyed before)
            idx = list(range(len(calls)))
            if order == 'rev':
                idx.reverse()
            for i in idx:
                a, kw = calls[i]
                try:
                    inspect.signature(f).bind(*a, **dict(kw))
                except TypeError:
                    continue
                try:
                    k = W.key(*a, **dict(kw))
                    rows[i] = repr(k)
                except Exception as e:
                    if kmname.startswith('picklemap(json') and isinstance(e, TypeError):
                        rows[i] = 'unencodable'      # json cannot encode bytes/tuples-as-keys etc.
                    else:
                        rows[i] = 'EXC %s %s' % (type(e).__name__, str(e)[:80])
            out['%s | %s' % (kmname, src)] = [rows[i] for i in sorted(rows)]
    json.dump(out, sys.stdout)


WORK = [
    (('a',), {}), ((1.5,), {'b': 'z'}), ((1, 2, 3), {'k': 2, 'w': 'q'}), (((1, 'a'),), {'b': (2.5,)}),
    ((), {'a': 'kw', 'b': 7}), ((b'by',), {'k': None}), ((10 ** 20, 1, 'x'), {'z': 1, 'y': 2}), ((True,), {}),
    ((1,), {'p': 1, 'q': 'two', 'r': 2.5}), ((2,), {'b': 'bee', 'q': None, 'p': (1,)}),
    ((Tagged(4),), {'k': Tagged(5)}),
]
# the same calls, spelled differently (keyword order permuted, defaults spelled out)
WORK_B = [
    ((), {'a': 'a'}), ((), {'b': 'z', 'a': 1.5}), ((1, 2, 3), {'w': 'q', 'k': 2}), ((), {'b': (2.5,), 'a': (1, 'a')}),
    ((), {'b': 7, 'a': 'kw'}), ((b'by', 1), {'k': None}), ((10 ** 20, 1, 'x'), {'y': 2, 'z': 1, 'k': 1}), ((True, 1), {'k': 1}),
    # extra keywords of different types, given in another order
    ((1,), {'r': 2.5, 'q': 'two', 'p': 1}), ((), {'p': (1,), 'q': None, 'a': 2, 'b': 'bee'}),
    ((), {'k': Tagged(5), 'a': Tagged(4)}),
]


def e2e_configs(which='c17'):
    out = []
    if which == 'c04':
        for mod in ('klepto', 'safe'):
            for alg in ('no', 'inf', 'lru', 'mru'):
                for arch in ('file', 'dir', 'sql', 'filejson', 'dirjson', 'filesrc', 'dirsrc', 'dirfast'):
                    out.append((mod, alg, arch, 'stringmap(flat=False)'))
        return out
    for mod in ('klepto', 'safe'):
        for alg in ('no', 'inf', 'lru', 'lfu', 'mru', 'rr'):
            for arch in ('file', 'dir', 'sql'):
                for km in ('stringmap()', 'stringmap(flat=False)', 'picklemap(pickle)', 'hashmap(md5)', 'hashmap(sha1,typed)',
                           'stringmap(typed,flat=False)', 'keymap(typed)', 'picklemap(dill)', 'picklemap(dill as module object)'):
                    if alg not in ('lru', 'inf') and km not in ('stringmap(flat=False)', 'hashmap(md5)'):
                        continue
                    if ('typed' in km or 'dill' in km) and arch != 'file':
                        continue
                    out.append((mod, alg, arch, km))
    return out


def _mk(mod, alg, arch, kmname, root):
    import klepto
    import klepto.safe
    import klepto.archives as ka
    m = klepto.safe if mod == 'safe' else klepto
    km = dict(keymap_table('quick'))[kmname]()
    name = os.path.join(root, '%s_%s_%s_%d' % (mod, alg, arch, abs(hash(kmname)) % 1000 if False else [k for k, _ in keymap_table('quick')].index(kmname)))
    if arch == 'file':
        a = ka.file_archive(name + '.pkl', cached=True)
    elif arch == 'dir':
        a = ka.dir_archive(name + '_d', cached=True)
    elif arch == 'filejson':
        a = ka.file_archive(name + '.json', cached=True, protocol='json')
    elif arch == 'dirjson':
        a = ka.dir_archive(name + '_dj', cached=True, protocol='json')
    elif arch == 'filesrc':
        a = ka.file_archive(name + '_s.py', cached=True, serialized=False)
    elif arch == 'dirsrc':
        a = ka.dir_archive(name + '_ds', cached=True, serialized=False)
    elif arch == 'dirfast':
        a = ka.dir_archive(name + '_df', cached=True, compression=2)
    else:
        a = ka.sqltable_archive('sqlite:///%s.db?table=memo' % name, cached=True)
    kw = {'cache': a, 'keymap': km}
    if alg not in ('no', 'inf'):
        kw['maxsize'] = 2
    dec = getattr(m, alg + '_cache')(**kw)
    calls = []

    def f(a, b=1, *args, k=1, **kw):
        calls.append(1)
        return repr((a, b, args, k, sorted(kw.items())))
    return dec(f), calls


def make_sibling(n):
    """functions made by one factory share a code object and differ only in a default value"""
    calls = []

    def scaled(x, k=n):
        calls.append(1)
        return repr((x, k))
    return scaled, calls


def siblings_mode(phase, root, out):
    """two sibling functions, each cached on its own persistent archive; the writing session touches them in one
    order, the reading session in the other"""
    import klepto
    import klepto.safe
    import klepto.archives as ka
    import klepto.keymaps as km
    for mod, alg in (('klepto', 'inf'), ('klepto', 'lru'), ('safe', 'mru')):
        for kmname, mk in (('stringmap(flat=False)', lambda: km.stringmap(flat=False)), ('hashmap(md5)', lambda: km.hashmap(algorithm='md5'))):
            order = (2, 3) if phase == 'write' else (3, 2)
            for n in order:
                f, calls = make_sibling(n)
                name = os.path.join(root, 'sib_%s_%s_%d_%d' % (mod, alg, 0 if 'string' in kmname else 1, n))
                a = ka.file_archive(name + '.pkl', cached=True)
                m = klepto.safe if mod == 'safe' else klepto
                kw = {'cache': a, 'keymap': mk()}
                if alg != 'inf':
                    kw['maxsize'] = 2
                W = getattr(m, alg + '_cache')(**kw)(f)
                results = []
                for x in (10, 11):
                    try:
                        results.append(W(x))
                    except Exception as e:
                        results.append('EXC %s %s' % (type(e).__name__, str(e)[:80]))
                if phase == 'write':
                    W.dump()
                out['%s.%s_cache file %s sibling(k=%d)' % (mod, alg, kmname, n)] = {'info': list(W.info()), 'evaluations': len(calls), 'results': results}


def unrelated_failures():
    """process state: things a session may have done before it reaches the cached functions -- here, calls whose
    arguments no keymap can encode (a safe cache just evaluates the function for them)"""
    import klepto.safe
    import klepto.keymaps as km
    import dill
    for mk in (lambda: km.picklemap(serializer='dill'), lambda: km.picklemap(serializer=dill), lambda: km.picklemap(serializer='pickle'),
               lambda: km.stringmap(), lambda: km.hashmap(algorithm='md5')):
        f = klepto.safe.inf_cache(keymap=mk())(lambda x, **kw: 0)
        for bad in ((i for i in ()), ReprRaises(), [1, {2: (i for i in ())}]):
            try:
                f(bad)
                f(1, opt=bad)
            except Exception:
                pass


class ReprRaises(object):
    def __repr__(self):
        raise TypeError('no repr')

    def __reduce_ex__(self, proto):
        raise TypeError('cannot be pickled')


def e2e_mode(phase, root, which='c17'):
    out = {}
    if which == 'c17' and phase == 'read':
        unrelated_failures()        # only the later session has this history
    if which == 'c17':
        siblings_mode(phase, root, out)
    for cfg in e2e_configs(which):
        W, calls = _mk(*cfg, root=root)
        work = WORK if phase == 'write' else WORK_B
        if cfg[3].startswith('keymap('):
            # a raw key holds the argument objects (and, typed, their classes) themselves: an instance of a class that
            # each session defines anew is not "the same argument" in the next session -- outside C17's quantifier
            work = [c for c in work if not any(isinstance(x, Tagged) for x in list(c[0]) + list(c[1].values()))]
        results = []
        for a, kw in work:
            try:
                results.append(W(*a, **kw))
            except Exception as e:
                results.append('EXC %s %s' % (type(e).__name__, str(e)[:80]))
        if phase == 'write':
            W.dump()
        out['%s.%s_cache %s %s' % cfg] = {'info': list(W.info()), 'evaluations': len(calls), 'results': results}
    json.dump(out, sys.stdout)


if __name__ == '__main__':
    mode = sys.argv[1]
    if mode == 'keys':
        keys_mode(sys.argv[2], sys.argv[3] == 'nohash', sys.argv[4] if len(sys.argv) > 4 else 'fwd')
    else:
        e2e_mode(mode, sys.argv[2], sys.argv[3] if len(sys.argv) > 3 else 'c17')
