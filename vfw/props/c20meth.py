"""C20 for memoised *methods*: the decorated function lives in a class body, is called through instances, and is
serialised on its own (``dill.dumps(Cls.__dict__['m'])``).

Every call history up to depth PRE over a small alphabet (two instances x two arguments), a dill round trip of the
wrapper, and every continuation up to depth POST -- run on the original and on the copy, each rebuilt from scratch,
and compared step by step (results, statistics, resident keys).  Differential oracle: no expected values.
"""
import collections
import itertools

SRC = '''
class Holder(object):
    def __init__(self, tag):
        self.tag = tag
    def __repr__(self):
        return 'Holder(%r)' % self.tag
    def m(self, x, y=0):
        LOG.append((self.tag, x, y))
        return 'm(%s,%s,%s)' % (self.tag if SEES_SELF else '-', x, y)
'''

ALPHABET = [(0, (1,), {}), (0, (2,), {}), (1, (1,), {}), (0, (1,), {'y': 0}), (1, (3,), {})]


def build(mod, alg, ignore, kmname):
    """fresh class with a freshly decorated method; returns (wrapper, instances, log)"""
    import klepto
    import klepto.safe
    import klepto.keymaps as km
    ns = {'LOG': [], '__name__': 'vfw_generated', 'SEES_SELF': ignore is None}
    exec(compile(SRC, '<c20 method>', 'exec'), ns)
    cls = ns['Holder']
    m = klepto.safe if mod == 'safe' else klepto
    kw = {} if alg in ('no', 'inf') else {'maxsize': 2}
    keymap = {'default': lambda: None, 'str': lambda: km.stringmap(flat=False), 'raw': lambda: km.keymap()}[kmname]()
    if keymap is not None:
        kw['keymap'] = keymap
    if ignore is not None:
        kw['ignore'] = ignore
    W = getattr(m, alg + '_cache')(**kw)(cls.__dict__['m'])
    cls.m = W
    return W, [cls('a'), cls('b')], ns['LOG']


def observe(W, insts, step):
    import random
    i, a, k = step
    saved = random.choice
    random.choice = lambda seq: list(seq)[0]        # RR imports random.choice inside each call: both sides pick index 0
    try:
        r = ('ret', W(insts[i], *a, **k))
    except Exception as e:
        r = ('exc', type(e).__name__)
    finally:
        random.choice = saved
    try:
        keys = tuple(sorted(map(repr, W.__cache__().keys())))
    except Exception as e:
        keys = ('EXC', type(e).__name__)
    return (r, tuple(W.info()), keys)


def run_task(task):
    _, tier, mod, alg, ignore, kmname = task
    import dill
    res = {'counts': collections.Counter(), 'violations': [], 'samples': [], 'caps': [], 'nontrivial': 0, 'outcomes': set(),
           'config': task[2:]}
    name = '%s.%s_cache method ignore=%r keymap=%s' % (mod, alg, ignore, kmname)
    pre_depth, post_depth = (2, 2) if tier == 'quick' else (3, 2)
    pres = [()]
    for n in range(1, pre_depth + 1):
        pres.extend(itertools.product(ALPHABET, repeat=n))
    posts = []
    for n in range(1, post_depth + 1):
        posts.extend(itertools.product(ALPHABET, repeat=n))
    seen = set()
    for pre in pres:
        # the state at the round trip is summarised by the observations so far: continuations from equal summaries are
        # explored once (the wrapper is a deterministic function of its call history)
        W, insts, log = build(mod, alg, ignore, kmname)
        trace = tuple(observe(W, insts, s) for s in pre)
        summary = trace[-1] if trace else ()
        if (summary, len(pre) > 0) in seen:
            continue
        seen.add((summary, len(pre) > 0))
        res['counts']['states'] += 1
        for post in posts:
            A, ia, _ = build(mod, alg, ignore, kmname)
            for s in pre:
                observe(A, ia, s)
            B0, ib, _ = build(mod, alg, ignore, kmname)
            for s in pre:
                observe(B0, ib, s)
            try:
                B = dill.loads(dill.dumps(B0))
            except Exception as e:
                res['violations'].append({'sig': {'engine': 'cachemc', 'rule': 'roundtrip-raises', 'form': 'method', 'exc': type(e).__name__,
                                                  'class': '%s.%s_cache' % ('safe' if mod == 'safe' else 'klepto', alg)},
                                          'detail': '%s: dill round trip of the decorated method raised %r after %r' % (name, e, list(pre)),
                                          'replay': {'engine': 'c20meth', 'property': 'C20', 'task': list(task), 'pre': [list(s) for s in pre]}})
                break
            res['counts']['transitions'] += len(post)
            res['counts']['evaluations'] += 1
            res['nontrivial'] += 1
            for j, s in enumerate(post):
                oa = observe(A, ia, s)
                ob = observe(B, ib, s)
                res['outcomes'].add(repr(oa[0])[:40])
                if oa != ob:
                    res['violations'].append({'sig': {'engine': 'cachemc', 'rule': 'continuation-differs', 'form': 'method', 'ignore': repr(ignore),
                                                      'keymap': kmname, 'class': '%s.%s_cache' % ('safe' if mod == 'safe' else 'klepto', alg)},
                                              'detail': '%s: history %r, round trip of the wrapper, continuation %r step %d: original %r, copy %r' % (
                                                  name, [list(s) for s in pre], [list(s) for s in post], j, oa, ob),
                                              'replay': {'engine': 'c20meth', 'property': 'C20', 'task': list(task),
                                                         'pre': [list(s) for s in pre], 'post': [list(s) for s in post]}})
                    break
            if res['violations']:
                break
        if res['violations']:
            break
    if not res['samples']:
        res['samples'].append({'config': name, 'history': [list(s) for s in pres[min(3, len(pres) - 1)]], 'then': 'dill round trip of Cls.__dict__["m"]',
                               'continuation': [list(s) for s in posts[0]]})
    res['counts']['states'] = max(1, res['counts']['states'])
    res['counts'] = dict(res['counts'])
    res['outcomes'] = sorted(res['outcomes'])
    res['traces_validated'] = True
    res['config_summary'] = name + ' [method round trip]'
    return res


def tasks(tier):
    out = []
    for mod in ('std', 'safe'):
        for alg in ('no', 'inf', 'lfu', 'lru', 'mru', 'rr'):
            for ignore, km in ((('self',), 'default' if mod == 'std' else 'str'), ('self', 'str'), (None, 'str')) + ((((0,), 'str'), (('self', 'y'), 'raw')) if tier == 'thorough' else ()):
                out.append(('C20meth', tier, mod, alg, ignore, km))
    return out
