"""E1 property checks: configuration matrices, alphabets and bounds per property.

run(prop, tier, seed) explores every configuration of the property's matrix with
the cachemc engine (BFS with dedup to closure or depth cap; thorough adds a
stateless DFS) and the property's monitor.
"""
import itertools

from ..core import pool
from ..core.evidence import Report
from ..engines import cachemc
from . import e1monitors

BOUNDED = ('lfu', 'lru', 'mru', 'rr')
ALL = ('no', 'inf') + BOUNDED
MODULES = ('std', 'safe')


def C(module='std', alg='lru', maxsize=2, purge=False, keymap='default', backend='none',
      init='empty', **kw):
    d = dict(module=module, alg=alg, maxsize=maxsize, purge=purge, keymap=keymap,
             backend=backend, init=init)
    d.update(kw)
    return d


def call_events(n, spell):
    return [('call', i) for i in range(n + spell)]


def base_events(n=3, spell=2, mgmt=True, raises=False, introspect=False, extra=()):
    ev = call_events(n, spell)
    if mgmt:
        ev += [('dump',), ('load',), ('clear',), ('arch', False), ('arch', True), ('dumpk', 0), ('loadk', 1),
               ('clearks',), ('newarch',), ('newarchc',), ('dumpks', 2, 0, 1), ('loadks', 2, 0)]
    if raises:
        ev += [('raise', 0, 'Boom'), ('raise', n - 1, 'KeyError'), ('raise', 1, 'TypeError')]
    if introspect:
        ev += [('lookup', 0), ('lookup', n), ('key', 1), ('key', n + 1), ('info',)]
    ev += list(extra)
    return ev


# ---------------------------------------------------------------------------
# matrices

def m_C01(tier):
    cfgs = []
    keymaps_q = ['default', 'raw', 'str', 'strnf', 'pickle', 'md5', 'rawtyped']
    keymaps_t = keymaps_q + ['rawnf', 'strtyped', 'picklenf', 'dill', 'md5nf', 'sha1typed']
    for mod in MODULES:
        for alg in ALL:
            sizes = (None,) if alg in ('no', 'inf') else ((1, 2) if tier == 'quick' else (1, 2, 3))
            for ms in sizes:
                purges = (False,) if alg in ('no', 'inf') else (False, True)
                for purge in purges:
                    # in-memory backends with the default keymap
                    for backend in ('none', 'dict', 'plaindict'):
                        if purge and backend != 'dict':
                            continue
                        cfgs.append(C(mod, alg, ms, purge, 'default', backend))
                    cfgs.append(C(mod, alg, ms, purge, 'default', 'dict', init='seeded_archive'))
            # keymaps (on lru / inf / no / rr only in quick)
            if tier == 'thorough' or alg in ('lru', 'no', 'rr'):
                for km in (keymaps_q if tier == 'quick' else keymaps_t):
                    if km == 'default' or (km == 'rawnf' and mod == 'std'):
                        # (a non-flat raw key is an (args, {kwds}) tuple: not hashable, so the standard decorators cannot be
                        # used with it at all -- klepto's own test suite notes the TypeError; the safe ones fall back)
                        continue
                    cfgs.append(C(mod, alg, None if alg in ('no', 'inf') else 2, False, km, 'dict'))
    # persistent + direct backends
    pers = [('file', 'str'), ('dir', 'default'), ('sql', 'str')] if tier == 'quick' else \
        [('file', 'default'), ('file', 'pickle'), ('filejson', 'str'), ('dir', 'default'), ('dir', 'str'),
         ('dir', 'md5'), ('dir', 'pickle'), ('dirjson', 'str'), ('dirfast', 'default'), ('sql', 'str'),
         ('sql', 'default'), ('sql', 'pickle'), ('sqlmem', 'str')]
    for mod in MODULES:
        for alg in (('lru', 'no') if tier == 'quick' else ALL):
            for (b, km) in pers:
                ms = None if alg in ('no', 'inf') else 2
                cfgs.append(C(mod, alg, ms, False, km, b, nargs=2, spellings=1))
                if tier == 'thorough' and alg in BOUNDED:
                    cfgs.append(C(mod, alg, 1, True, km, b, nargs=2, spellings=1))
    directs = ['direct:dict'] if tier == 'quick' else ['direct:dict', 'direct:file', 'direct:dir', 'direct:sql']
    for mod in MODULES:
        for alg in (('lru', 'inf') if tier == 'quick' else ALL):
            for b in directs:
                km = 'str' if b != 'direct:dict' else 'default'
                cfgs.append(C(mod, alg, None if alg in ('no', 'inf') else 2, False, km, b, nargs=2, spellings=1))
    # long string arguments (keys longer than a file name) over the directory archive
    for mod in MODULES:
        for alg in (('lru', 'no') if tier == 'quick' else ALL):
            for b in (('dir',) if tier == 'quick' else ('dir', 'direct:dir', 'dirjson', 'file', 'sql')):
                cfgs.append(C(mod, alg, None if alg in ('no', 'inf') else 1, False, 'str', b, nargs=3, spellings=1, args='long'))
    # tuple results through pickle-based stores
    for alg in ('lru', 'mru'):
        cfgs.append(C('std', alg, 1, False, 'default', 'dict', result='tuple'))
    # a variadic function g(x, *rest, **opts): calls that differ only in the named argument / in one extra
    # positional, under every flat and non-flat keymap family
    for mod in MODULES:
        for alg in ALL:
            ms = None if alg in ('no', 'inf') else 2
            kms = ('default', 'raw', 'str', 'pickle', 'md5') if (tier == 'thorough' or alg in ('lru', 'inf')) else ('default', 'raw')
            for km in kms:
                cfgs.append(C(mod, alg, ms, False, km, 'dict', fn='var', nargs=4, spellings=1))
            if tier == 'thorough':
                for km in ('rawnf', 'rawtyped', 'strnf', 'picklenf'):
                    if km == 'rawnf' and mod == 'std':
                        continue
                    cfgs.append(C(mod, alg, ms, False, km, 'dict', fn='var', nargs=5, spellings=1))
            # a partial re-binding a keyword-only default: p(1) really runs with k=7, p(1, k=3) with k=3
            for km in (('default', 'raw') if tier == 'quick' else ('default', 'raw', 'str', 'picklenf', 'md5')):
                cfgs.append(C(mod, alg, ms, False, km, 'dict', fn='pkw', nargs=3, spellings=1))
    cfgs += falsy_configs(tier)
    cfgs += twin_configs(tier)
    cfgs += rec_configs(tier)
    cfgs += longuse_configs(tier)
    cfgs += rebuilt_configs(tier, 'C01')
    return cfgs


def rec_configs(tier, algs=ALL):
    """a recursive function: g(x) evaluates g(x-1) through the wrapper (nested calls while a call is in progress)"""
    cfgs = []
    for mod in MODULES:
        for alg in algs:
            sizes = (None,) if alg in ('no', 'inf') else ((1, 2) if tier == 'quick' else (1, 2, 3))
            for ms in sizes:
                for purge in ((False,) if alg in ('no', 'inf') else (False, True)):
                    for backend in ('none', 'dict'):
                        if purge and backend != 'dict':
                            continue
                        cfgs.append(C(mod, alg, ms, purge, 'default', backend, fn='rec', nargs=3 if tier == 'quick' else 4, spellings=0))
    return cfgs


def falsy_configs(tier, algs=ALL):
    """results None / 0 / '' (a stored falsy result is still a stored result)"""
    cfgs = []
    for mod in MODULES:
        for alg in algs:
            sizes = (None,) if alg in ('no', 'inf') else ((1,) if tier == 'quick' else (1, 2))
            for ms in sizes:
                for purge in ((False,) if alg in ('no', 'inf') else (False, True)):
                    for init in (('empty',) if tier == 'quick' else ('empty', 'seeded_archive')):
                        cfgs.append(C(mod, alg, ms, purge, 'default', 'dict', init, result='falsy'))
            # ... and in a store that has to tell "holds None" from "holds nothing" on disk
            if alg in ('lru', 'no', 'rr') or tier == 'thorough':
                for b in (('dir',) if tier == 'quick' else ('dir', 'sql', 'file')):
                    cfgs.append(C(mod, alg, None if alg in ('no', 'inf') else 1, False, 'str', b, result='falsy', nargs=2, spellings=1))
    return cfgs


def m_C05(tier):
    cfgs = []
    for mod in MODULES:
        for alg in BOUNDED:
            for ms in ((1, 2) if tier == 'quick' else (1, 2, 3)):
                for purge in (False, True):
                    for backend, init in (('none', 'empty'), ('dict', 'empty'), ('dict', 'seeded_archive'),
                                          ('plaindict', 'seeded_cache')):
                        if purge and backend != 'dict':
                            continue
                        cfgs.append(C(mod, alg, ms, purge, 'default', backend, init))
                        cfgs.append(C(mod, alg, ms, purge, 'default', backend, init, maxsize_pos=True))
            for ms in (0, None):
                for pos in (False, True):
                    for backend, init in (('none', 'empty'), ('dict', 'seeded_archive'), ('plaindict', 'seeded_cache')):
                        cfgs.append(C(mod, alg, ms, False, 'default', backend, init, maxsize_pos=pos))
        for alg in ('no', 'inf'):
            for backend, init in (('none', 'empty'), ('dict', 'seeded_archive'), ('plaindict', 'seeded_cache')):
                cfgs.append(C(mod, alg, None, False, 'default', backend, init))
    # keys of other types than the default keymap's ints (tuples, strings, bytes): the victim is named by its key
    for mod in MODULES:
        for alg in BOUNDED:
            for km in ('raw', 'str', 'pickle'):
                for backend in ('none', 'dict'):
                    cfgs.append(C(mod, alg, 1, False, km, backend, nargs=3, spellings=1, depth=5, states=600 if tier == 'quick' else 2500))
    # many distinct keys on a small alphabet: LFU evicts two entries at a time, so bookkeeping left behind by
    # clear(keepstats=True) / a raising call / purge needs >= 5 distinct keys at maxsize 2 before it can overfill
    for mod in MODULES:
        for alg in BOUNDED:
            for backend in ('none', 'dict'):
                cfgs.append(C(mod, alg, 2, False, 'default', backend, nargs=5, spellings=0, wide=True))
            if tier == 'thorough':
                cfgs.append(C(mod, alg, 3, False, 'default', 'dict', nargs=6, spellings=0, wide=True))
    # purge requested at decoration time, the archive only attached afterwards (f.archive(obj))
    for mod in MODULES:
        for alg in BOUNDED:
            for ms in (1, 2):
                cfgs.append(C(mod, alg, ms, True, 'default', 'none', attach_later=True))
    cfgs += [c for c in twin_configs(tier) if c['alg'] in BOUNDED]
    cfgs += rec_configs(tier, BOUNDED)
    cfgs += scale_configs(tier)
    if tier == 'thorough':
        for mod in MODULES:
            for alg in BOUNDED:
                for b in ('file', 'dir', 'sql', 'direct:dict', 'direct:dir'):
                    for purge in (False, True):
                        if purge and b.startswith('direct'):
                            continue
                        cfgs.append(C(mod, alg, 1, purge, 'str', b, 'seeded_archive' if not b.startswith('direct') else 'empty',
                                      nargs=2, spellings=1))
    cfgs += longuse_configs(tier, deep=True)
    cfgs += rebuilt_configs(tier, 'C05')
    return cfgs


def m_C06(tier):
    cfgs = []
    for mod in MODULES:
        for alg in BOUNDED:
            for ms in ((1, 2, 3) if tier == 'quick' else (1, 2, 3, 4)):
                for backend, init in (('none', 'empty'), ('dict', 'empty'), ('dict', 'seeded_archive')):
                    cfgs.append(C(mod, alg, ms, False, 'default', backend, init,
                                  nargs=min(4, ms + 2) if tier == 'quick' else min(5, ms + 2), spellings=1))
    for mod in MODULES:
        for alg in BOUNDED:
            for km in ('raw', 'str'):
                cfgs.append(C(mod, alg, 2, False, km, 'none', nargs=4, spellings=0, depth=6, states=500 if tier == 'quick' else 2500))
    cfgs += narrow_configs(tier)
    # purge=True with the archive switched off is "without purge" too: the policy branch runs on bookkeeping that an
    # earlier whole-cache purge has been through
    for mod in MODULES:
        for alg in BOUNDED:
            for ms in ((2,) if tier == 'quick' else (1, 2, 3)):
                cfgs.append(C(mod, alg, ms, True, 'default', 'dict', nargs=ms + 2, spellings=0,
                              narrow=[['arch', False], ['arch', True]], depth=7 if tier == 'quick' else 8,
                              states=2500 if tier == 'quick' else 6000))
    # "a hit never removes anything" also holds when the cache is over its bound (after a bulk load): calls + load/dump,
    # judged for hits only (the policy itself is undefined for entries the bookkeeping never saw)
    for mod in MODULES:
        for alg in BOUNDED:
            for ms in ((1,) if tier == 'quick' else (1, 2)):
                for purge in (False, True):
                    cfgs.append(C(mod, alg, ms, purge, 'default', 'dict', 'seeded_archive', nargs=3, spellings=0, hits_only=True,
                                  depth=4 if tier == 'quick' else 5, states=600 if tier == 'quick' else 2500))
                    # (one call of the table is new to the archive: after a bulk load it is the only entry with a recency)
                    cfgs.append(C(mod, alg, ms, purge, 'default', 'dict', 'seeded_archive_partial', nargs=3, spellings=0, hits_only=True,
                                  depth=5 if tier == 'quick' else 6, states=800 if tier == 'quick' else 3000))
    cfgs += [c for c in longuse_configs(tier, deep=True) if c['longuse'] == 'cycles']
    cfgs += scale_configs(tier)
    cfgs += rebuilt_configs(tier, 'C06')
    return cfgs


def narrow_configs(tier):
    """several small alphabets explored deep instead of one large alphabet explored shallow: three or four keys,
    one management operation, one macro event; depth 7-8 (bookkeeping that survives a management operation
    only shows after several further insertions)"""
    cfgs = []
    # (no bulk load() here: C06 does not define a policy for entries the bookkeeping never saw, see DESIGN section 4)
    mgmt = [('clearks',), ('clear',), ('dump',), ('raise', 0, 'Boom')]
    for mod in MODULES:
        for alg in BOUNDED:
            for ms in ((2,) if tier == 'quick' else (2, 3)):
                for m in mgmt:
                    backend = 'dict' if m[0] in ('dump', 'load') else 'none'
                    cfgs.append(C(mod, alg, ms, False, 'default', backend, nargs=ms + 2, spellings=0,
                                  narrow=[list(m)], depth=7 if tier == 'quick' else 8, states=2500 if tier == 'quick' else 6000))
    return cfgs


def longuse_configs(tier, backends=None, deep=True):
    """the LRU use-queue is compacted once it holds more than 10 * maxsize recorded uses: a code path that only runs after a
    dozen calls.  Two keys, maxsize 1 (thorough: and 2), macro events that put 10*maxsize-1 / 10*maxsize+1 uses in the queue, and
    the property's own probes around them"""
    cfgs = []
    for mod in MODULES:
        for ms in ((1,) if tier == 'quick' else (1, 2)):
            for backend in (backends or (('none',) if tier == 'quick' else ('none', 'dict'))):
                cfgs.append(C(mod, 'lru', ms, False, 'default', backend, nargs=2, spellings=1, longuse=True,
                              depth=7 if tier == 'quick' else 9, states=1500 if tier == 'quick' else 4000))
        if deep:
            # two compaction cycles, three keys: both macro lengths on both keys (bookkeeping damaged by one compaction
            # only shows at the next)
            cfgs.append(C(mod, 'lru', 1, False, 'default', (backends or ('none',))[0], nargs=3, spellings=0, longuse='cycles',
                          depth=7 if tier == 'quick' else 9, states=3000 if tier == 'quick' else 6000))
    return cfgs


LONGUSE_PROBES = {
    'C01': [('clear',)],
    'C02': [('dump',), ('load',)],
    'C05': [('clear',)],
    'C06': [('clear',)],
    'C07': [('dump',)],
    'C15': [('info',), ('clear',)],
    'C16': [('raise', 0, 'Boom'), ('raise', 1, 'Boom')],
    'C18': [('lookup', 0), ('lookup', 1), ('key', 1)],
    'C20': [('reclone',)],
}


def rebuilt_configs(tier, prop):
    """the decorator object is rebuilt from itself (copy.copy, or a dill round trip where nothing is shared with the
    harness) before it is applied: maxsize however it was passed, purge, keymap, ignore and tolerance must come through"""
    cfgs = []
    lim = dict(depth=4, states=400) if tier == 'quick' else dict(depth=5, states=2000)
    for mod in MODULES:
        for alg in ALL:
            ms = None if alg in ('no', 'inf') else 1
            if prop in ('C05', 'C07', 'C02'):
                cfgs.append(C(mod, alg, ms, alg in BOUNDED, 'default', 'dict', maxsize_pos=alg in BOUNDED, deco_via='copy', nargs=2, spellings=1, **lim))
            if prop in ('C05', 'C06', 'C15') and alg in BOUNDED:
                cfgs.append(C(mod, alg, 2, False, 'default', 'none', maxsize_pos=True, deco_via='pickle', **lim))
            if prop in ('C01', 'C18'):
                cfgs.append(C(mod, alg, ms, False, 'str', 'none', nargs=3, spellings=1, args='float', tol=1, deco_via='pickle', **lim))
                cfgs.append(C(mod, alg, ms, False, 'default' if mod == 'std' else 'str', 'none', ignore='y', deco_via='copy', **lim))
    return cfgs


def scale_configs(tier):
    """code paths that only run for larger parameters: maxsize 30 (LFU then evicts maxsize // 10 = 3 entries at a time),
    reached with a macro event that fills the cache"""
    cfgs = []
    for mod in MODULES:
        for alg in BOUNDED:
            for backend in (('none',) if tier == 'quick' else ('none', 'dict')):
                cfgs.append(C(mod, alg, 30, False, 'default', backend, nargs=35, spellings=0, scale=True, depth=4, states=150 if tier == 'quick' else 800))
    return cfgs


def m_C02(tier):
    cfgs = []
    for mod in MODULES:
        for alg in ALL:
            sizes = (None,) if alg in ('no', 'inf') else (1, 2)
            for ms in sizes:
                for purge in ((False,) if alg in ('no', 'inf') else (False, True)):
                    for backend, init in (('none', 'empty'), ('dict', 'empty'), ('dict', 'seeded_archive'), ('null', 'empty')):
                        if purge and backend != 'dict':
                            continue
                        cfgs.append(C(mod, alg, ms, purge, 'default', backend, init))
    pers = ['file', 'dir', 'sql', 'filejson', 'filesrc', 'filesrcbare', 'dirsrc', 'dirjson', 'dirjsonfast', 'dirfastmm'] if tier == 'thorough' else ['file', 'filesrcbare', 'sql', 'dirjsonfast']
    for mod in MODULES:
        for alg in (ALL if tier == 'thorough' else ('lru', 'no')):
            for b in pers:
                for purge in ((False,) if alg in ('no', 'inf') else (False, True)):
                    cfgs.append(C(mod, alg, None if alg in ('no', 'inf') else 1, purge, 'str', b, nargs=2, spellings=1))
    # keys of other shapes (tuples from the raw keymap, nested tuples, bytes): the per-key archive lookup must find them
    for mod in MODULES:
        for alg in (('lru', 'no', 'inf') if tier == 'quick' else ALL):
            for km in ('raw', 'pickle', 'rawtyped', 'rawsent') if tier == 'thorough' else ('raw', 'rawsent'):
                cfgs.append(C(mod, alg, None if alg in ('no', 'inf') else 1, False, km, 'dict', nargs=2, spellings=1))
    cfgs += falsy_configs(tier)
    # narrow and deep: two keys, the archive toggles and the archive replacement (state parked by a toggle only
    # matters several operations later)
    for mod in MODULES:
        for alg in (('lru', 'lfu') if tier == 'quick' else BOUNDED):
            cfgs.append(C(mod, alg, 1, False, 'default', 'dict', nargs=2, spellings=0,
                          narrow=[['arch', False], ['arch', True], ['newarch'], ['dump']], depth=7 if tier == 'quick' else 8,
                          states=3000 if tier == 'quick' else 5000))
    cfgs += longuse_configs(tier, backends=('dict',), deep=True)
    cfgs += rebuilt_configs(tier, 'C02')
    return cfgs


def m_C07(tier):
    cfgs = []
    for mod in MODULES:
        for alg in BOUNDED + ('no',):
            sizes = (None,) if alg == 'no' else (1, 2)
            for ms in sizes:
                for purge in ((False,) if alg == 'no' else (False, True)):
                    for init in ('empty', 'seeded_archive'):
                        cfgs.append(C(mod, alg, ms, purge, 'default', 'dict', init))
    pers = ['file', 'dir', 'sql', 'filesrc', 'dirjson', 'filejson', 'dirjsonfast'] if tier == 'thorough' else ['dir', 'sql', 'filejson']
    for mod in MODULES:
        for alg in (BOUNDED + ('no',) if tier == 'thorough' else ('lfu', 'rr')):
            for b in pers:
                for purge in ((False,) if alg == 'no' else (False, True)):
                    cfgs.append(C(mod, alg, None if alg == 'no' else 1, purge, 'str', b, nargs=2, spellings=1))
    cfgs += falsy_configs(tier, BOUNDED + ('no',))
    # an archive that cannot store one particular result (the write raises): the victim must not have left memory
    # (not for no_cache: with maxsize 0 a result the archive refuses has nowhere to stay)
    for mod in MODULES:
        for alg in BOUNDED:
            for purge in (False, True):
                cfgs.append(C(mod, alg, 1, purge, 'default', 'refusing', nargs=3, spellings=0,
                              depth=5, states=800 if tier == 'quick' else 2500))
    cfgs += longuse_configs(tier, backends=('dict',))
    # larger maxsize with an archive attached (LFU evicts maxsize // 10 entries at a time there)
    cfgs += [dict(c, states=150 if tier == 'quick' else 800) for c in scale_configs('thorough')
             if c['backend'] == 'dict' and (tier == 'thorough' or c['alg'] == 'lfu')]
    cfgs += rebuilt_configs(tier, 'C07')
    return cfgs


def m_C15(tier):
    cfgs = []
    for mod in MODULES:
        for alg in ALL:
            sizes = (None,) if alg in ('no', 'inf') else (1, 2)
            for ms in sizes:
                for purge in ((False,) if alg in ('no', 'inf') else (False, True)):
                    for backend, init in (('none', 'empty'), ('null', 'empty'), ('dict', 'empty'), ('dict', 'seeded_archive'),
                                          ('plaindict', 'seeded_cache')):
                        if purge and backend != 'dict':
                            continue
                        cfgs.append(C(mod, alg, ms, purge, 'default', backend, init))
    if tier == 'thorough':
        for mod in MODULES:
            for alg in ALL:
                for b in ('file', 'dir', 'sql'):
                    cfgs.append(C(mod, alg, None if alg in ('no', 'inf') else 1, False, 'str', b, nargs=2, spellings=1))
    cfgs += falsy_configs(tier)
    # safe decorators, arguments the keymap cannot key (counted as a miss when the call completes, as nothing when it raises)
    for alg in ALL:
        for km in ('raw', 'hash'):
            for backend, init in (('none', 'empty'), ('dict', 'seeded_archive')):
                cfgs.append(C('safe', alg, None if alg in ('no', 'inf') else 1, False, km, backend, init, nargs=2, spellings=1, unkeyable=True))
    cfgs += twin_configs(tier)
    cfgs += longuse_configs(tier)
    cfgs += rebuilt_configs(tier, 'C15')
    return cfgs


def m_C16(tier):
    cfgs = []
    for mod in MODULES:
        for alg in ALL:
            sizes = (None,) if alg in ('no', 'inf') else (1, 2)
            for ms in sizes:
                for purge in ((False,) if alg in ('no', 'inf') else (False, True)):
                    for backend, init in (('none', 'empty'), ('dict', 'empty'), ('dict', 'seeded_archive')):
                        if purge and backend != 'dict':
                            continue
                        cfgs.append(C(mod, alg, ms, purge, 'default', backend, init))
    if tier == 'thorough':
        for mod in MODULES:
            for alg in ALL:
                for b in ('file', 'dir'):
                    cfgs.append(C(mod, alg, None if alg in ('no', 'inf') else 1, False, 'str', b, nargs=2, spellings=1))
    # safe decorators with arguments the keymap cannot key
    for alg in ALL:
        for km in ('default', 'raw', 'hash', 'pickle', 'md5', 'strnf') if tier == 'thorough' else ('default', 'raw', 'hash', 'pickle', 'md5'):
            for backend, init in (('none', 'empty'), ('dict', 'seeded_archive')) + ((('file', 'empty'),) if tier == 'thorough' else ()):
                cfgs.append(C('safe', alg, None if alg in ('no', 'inf') else 1, False, km, backend, init, nargs=2, spellings=1, unkeyable=True))
        # ... with an ignore / rounding configuration, so that the arguments the key is built from differ from the caller's
        for backend in ('none', 'dict'):
            cfgs.append(C('safe', alg, None if alg in ('no', 'inf') else 1, False, 'raw', backend, nargs=2, spellings=1, unkeyable=True, ignore='y'))
            cfgs.append(C('safe', alg, None if alg in ('no', 'inf') else 1, False, 'raw', backend, nargs=2, spellings=1, unkeyable=True, tol=0, ignore=('y', '**')))
    cfgs += longuse_configs(tier)
    return cfgs


def m_C18(tier):
    cfgs = []
    kms = ['default', 'raw', 'strnf', 'pickle', 'md5'] if tier == 'quick' else \
        ['default', 'raw', 'rawnf', 'rawtyped', 'str', 'strnf', 'strtyped', 'pickle', 'picklenf', 'md5', 'md5nf']
    for mod in MODULES:
        for alg in ALL:
            ms = None if alg in ('no', 'inf') else 2
            for km in kms:
                cfgs.append(C(mod, alg, ms, False, km, 'dict'))
            cfgs.append(C(mod, alg, ms, False, 'default', 'none'))
            if alg in BOUNDED:
                cfgs.append(C(mod, alg, 1, True, 'default', 'dict', 'seeded_archive'))
            for ign in ('y', 0, ('y', '**')):
                cfgs.append(C(mod, alg, ms, False, 'default' if mod == 'std' else 'str', 'dict', ignore=ign))
            cfgs.append(C(mod, alg, ms, False, 'str', 'dict', tol=0))
            cfgs.append(C(mod, alg, ms, False, 'str', 'dict', tol=1, deep=True))
            # float arguments that really are rounded (positionally and by keyword)
            cfgs.append(C(mod, alg, ms, False, 'str', 'dict', tol=1, args='float'))
            cfgs.append(C(mod, alg, ms, False, 'default', 'dict', tol=0, deep=True, args='float'))
    cfgs += twin_configs(tier)
    cfgs += [c for c in falsy_configs(tier) if c['backend'] == 'dict' and not c['purge']]      # lookup() of a resident None / 0 / ''
    if tier == 'thorough':
        for mod in MODULES:
            for alg in ALL:
                for b, km in (('file', 'str'), ('dir', 'md5'), ('sql', 'pickle'), ('direct:dict', 'default')):
                    cfgs.append(C(mod, alg, None if alg in ('no', 'inf') else 1, False, km, b, nargs=2, spellings=1))
    cfgs += longuse_configs(tier)
    cfgs += rebuilt_configs(tier, 'C18')
    return cfgs


def m_C20(tier):
    cfgs = []
    for mod in MODULES:
        for alg in ALL:
            sizes = (None,) if alg in ('no', 'inf') else ((2,) if tier == 'quick' else (1, 2))
            for ms in sizes:
                for purge in ((False,) if alg in ('no', 'inf') else (False, True)):
                    for backend, init in (('none', 'empty'), ('dict', 'empty'), ('dict', 'seeded_archive')):
                        if purge and backend != 'dict':
                            continue
                        cfgs.append(C(mod, alg, ms, purge, 'default', backend, init, nargs=2, spellings=1))
            for km in ('str', 'pickle') + (('rawsent', 'strsent', 'md5sent', 'chain', 'rawtyped', 'picklenf') if (tier == 'thorough' or alg in ('lru', 'inf')) else ('strsent',)):
                # (configuration survival shows at the first round trip: shallow)
                cfgs.append(C(mod, alg, sizes[0], False, km, 'dict', nargs=2, spellings=1, **({} if km in ('str', 'pickle') else {'depth': 3})))
            # an ignore specification puts klepto's NULL marker into every key: the entries made before the round trip must
            # still be found by the copy (raw keys hold the marker itself, serialised keys its pickle / repr)
            if tier == 'thorough' or alg in ('lru', 'inf', 'no'):
                for km in ('raw', 'str', 'pickle'):
                    cfgs.append(C(mod, alg, sizes[0], False, km, 'dict', nargs=2, spellings=1, ignore='y', depth=3))
            # rounding configuration must survive the round trip: float arguments, tol None / 0 / 1, deep or not
            for tol, deep in ((None, False), (None, True), (0, True), (1, False)):
                if tier == 'thorough' or alg in ('lru', 'inf', 'mru'):
                    cfgs.append(C(mod, alg, sizes[0], False, 'str', 'none', nargs=3, spellings=1, args='float', tol=tol, deep=deep, depth=3))
            for b in (('file',) if tier == 'quick' else ('file', 'dir', 'null')):
                cfgs.append(C(mod, alg, sizes[0], False, 'str', b, nargs=2, spellings=1))
            # archives whose settings travel only in their pickled state (protocol, compression, ...)
            if tier == 'thorough' or alg in ('lru', 'no'):
                for b in ('dirjson', 'filejson', 'dirfast', 'dir'):
                    cfgs.append(C(mod, alg, sizes[0], False, 'str', b, 'seeded_archive', nargs=2, spellings=1))
    cfgs += longuse_configs(tier)
    return cfgs


def ev_for(prop, cfg, tier):
    n = cfg.get('nargs', 3)
    sp = cfg.get('spellings', 2)
    if cfg.get('hits_only'):
        return call_events(n, sp) + [('load',), ('dump',), ('arch', False), ('arch', True)]
    if cfg.get('longuse'):
        ms = cfg['maxsize']
        if cfg['longuse'] == 'cycles':
            return call_events(n, sp) + [('callx', i, m) for i in (0, 1) for m in (10 * ms - 1, 10 * ms + 1)] + LONGUSE_PROBES[prop]
        return call_events(n, sp) + [('callx', 0, 10 * ms - 1), ('callx', 1, 10 * ms + 1)] + LONGUSE_PROBES[prop]
    if cfg.get('scale'):
        # fill the cache in one macro event, then single calls around the bound
        return [('callseq', 0, 30), ('callseq', 0, 28)] + [('call', i) for i in (0, 1, 29, 30, 31, 32, 33)] + [('callx', 0, 3), ('clearks',)]
    if cfg.get('fn') == 'rec':
        return call_events(n, sp) + [('clear',), ('dump',), ('load',), ('arch', False), ('arch', True)]
    if cfg.get('twin'):
        return call_events(n, sp) + [('tcall', i) for i in range(n + sp)] + [('tlookup', 0), ('tlookup', n + 1), ('clear',), ('raise', 0, 'Boom')]
    if cfg.get('narrow'):
        ev = call_events(n, sp) + [tuple(m) for m in cfg['narrow']]
        if cfg['alg'] == 'lfu':
            ev += [('callx', 0, 3)]
        if cfg['alg'] == 'lru' and prop == 'C06':
            ev += [('callx', 0, 10 * cfg['maxsize'] - 1)]
        return ev
    if prop == 'C06':
        # what the statement quantifies over: calls (+ clear / dump, which keep bookkeeping consistent)
        ev = call_events(n, sp) + [('clear',), ('dump',), ('clearks',), ('raise', n - 1, 'Boom')]
        if cfg['alg'] == 'lru' and (tier != 'quick' or cfg['maxsize'] <= 2):
            ms = cfg['maxsize']
            ev += [('callx', 0, 10 * ms - 1), ('callx', 1, 10 * ms + 1)]
        if cfg['alg'] == 'lfu':
            ev += [('callx', 0, 3)]
        return ev
    if prop == 'C05' and cfg.get('attach_later'):
        return call_events(n, sp) + [('newarch',), ('newarchc',), ('arch', False), ('arch', True), ('clear',)]
    if prop == 'C05' and cfg.get('wide'):
        return call_events(n, sp) + [('clearks',), ('clear',)]
    if prop == 'C05':
        return call_events(n, sp) + [('load',), ('dump',), ('clear',), ('clearks',), ('raise', 0, 'Boom'), ('arch', False), ('arch', True)]
    if prop == 'C01':
        if tier == 'quick' and (cfg.get('fn') or cfg.get('keymap', 'default') != 'default'):
            # configurations whose point is the key (function shape, keymap family): calls plus the operations that move
            # entries between memory and archive; the full management alphabet runs on the default-keymap configurations
            return call_events(n, sp) + [('dump',), ('load',), ('clear',), ('arch', False), ('arch', True), ('dumpks', 2, 0, 1)]
        return base_events(n, sp, mgmt=True) + [('redec',)]
    if prop == 'C02':
        return base_events(n, sp, mgmt=True, raises=False) + [('redec',), ('redecs',), ('raise', 0, 'Boom')]
    if prop == 'C07':
        return base_events(n, sp, mgmt=True) + [('raise', 1, 'Boom'), ('aclear',), ('reclone',), ('redecs',)]
    if prop == 'C15' and cfg.get('unkeyable'):
        return call_events(n, 1) + [('callu', 0), ('callu', 1), ('callu', 3), ('raiseu', 0), ('raiseu', 3), ('raise', 0, 'Boom'), ('clear',), ('clearks',), ('load',)]
    if prop == 'C15':
        return base_events(n, sp, mgmt=True, raises=True, introspect=False) + [('info',), ('lookup', 0)]
    if prop == 'C16':
        ev = base_events(n, sp, mgmt=True, raises=True)
        if cfg['module'] == 'safe' and cfg.get('unkeyable'):
            ev = call_events(n, 1) + [('callu', i) for i in range(6)] + [('raiseu', 0), ('raiseu', 3), ('dump',), ('clear',), ('arch', False), ('arch', True)]
        return ev
    if prop == 'C18':
        return base_events(n, sp, mgmt=True, introspect=True) + [('raise', 0, 'Boom')]
    if prop == 'C20':
        return call_events(n, sp) + [('reclone',), ('dump',), ('load',), ('clear',), ('arch', False), ('arch', True),
                                     ('raise', 0, 'Boom')]
    raise KeyError(prop)


MATRICES = {'C01': m_C01, 'C02': m_C02, 'C05': m_C05, 'C06': m_C06, 'C07': m_C07, 'C15': m_C15,
            'C16': m_C16, 'C18': m_C18, 'C20': m_C20}

BOUNDS = {
    # prop: (quick (depth, states), thorough (depth, states), thorough dfs depth)
    # (thorough caps are set so that one property's thorough run stays near half an hour on 16 cores: 12000-15000 states per
    # configuration took several hours once the matrices had grown to 300-1100 configurations; C06 at 8000 states and DFS 4
    # was still running after 70 minutes)
    'C01': ((6, 900), (8, 2500), 3),
    'C02': ((6, 1000), (8, 3000), 3),
    'C05': ((6, 1200), (8, 3000), 3),
    'C06': ((6, 500), (8, 3000), 3),
    'C07': ((6, 900), (8, 3000), 3),
    'C15': ((5, 1200), (7, 3000), 3),
    'C16': ((5, 1200), (7, 3000), 3),
    'C18': ((5, 1000), (7, 3000), 3),
    'C20': ((5, 450), (6, 3000), 0),
}

RULES = {
    'C01': 'every event sequence over the alphabet up to closure/depth cap; non-trivial = call whose key was already in memory or archive (answer not freshly computed); distinct = (pre-state, event, choice script)',
    'C02': 'as C01; non-trivial = call transition after at least one eviction, purge or re-decoration on the path',
    'C05': 'call/load/dump/clear histories; non-trivial = call made with the cache at (or above) capacity, or with maxsize 0/None',
    'C06': 'call/clear/dump histories incl. macro events; non-trivial = overflowing insertion without purge',
    'C07': 'as C01 on archived configurations; non-trivial = call after which at least one entry left memory while an archive was attached',
    'C15': 'all events; non-trivial = call or clear transitions (classified hit/load/miss from the pre-state)',
    'C16': 'histories with raising calls; non-trivial = call whose function evaluation raised',
    'C18': 'histories with key()/lookup() probes; non-trivial = key/lookup transition or evaluating call',
    'C20': 'histories with dill round trips; non-trivial = round trip, or call made on a clone',
}


def make_monitors_for(prop):
    def mk(cfg):
        ms = [e1monitors.MONITORS[prop](cfg)]
        if cfg.get('twin'):
            ms.append(e1monitors.Twin(cfg, prop))
        return ms
    return mk


def twin_configs(tier):
    """a second function decorated by a second decorator of the same class (nothing shared by design)"""
    cfgs = []
    lim = dict(depth=4, states=500) if tier == 'quick' else dict(depth=5, states=3000)
    for mod in MODULES:
        for alg in ALL:
            ms = None if alg in ('no', 'inf') else 2
            for backend in (('none', 'dict') if tier == 'quick' else ('none', 'dict', 'plaindict')):
                cfgs.append(C(mod, alg, ms, False, 'default', backend, nargs=3, spellings=2, twin=True, **lim))
            # each function with its own default (unnamed, in-memory) sql archive: two such archives are two databases
            if alg in ('lru', 'no', 'inf') or tier == 'thorough':
                cfgs.append(C(mod, alg, ms, False, 'str', 'sqlmem', nargs=2, spellings=1, twin=True, **lim))
            cfgs.append(C(mod, alg, ms, False, 'default', 'none', nargs=3, spellings=2, twin='same-decorator', **lim))
            cfgs.append(C(mod, alg, ms, False, 'default', 'none', nargs=3, spellings=2, twin='constructed-first', **lim))
            if tier == 'thorough':
                cfgs.append(C(mod, alg, ms, alg in BOUNDED, 'str', 'dict', nargs=3, spellings=1, twin=True, **lim))
    return cfgs


def _worker(task):
    if task[0] == 'C20meth':
        from . import c20meth
        return c20meth.run_task(task)
    prop, cfg, mode, depth, states, budget, tier = task
    mk = make_monitors_for(prop)
    evs = ev_for(prop, cfg, tier)
    cont = None
    if prop == 'C20':
        from .c20cont import continuation_check as cont
    if mode == 'bfs':
        r = cachemc.explore_bfs(cfg, evs, mk, prop, max_depth=depth, max_states=states,
                                time_budget=budget, continuation_check=cont)
    else:
        r = cachemc.explore_dfs(cfg, evs, mk, prop, depth=depth)
    r['config_summary'] = cachemc.cfg_name(cfg) + ' [%s]' % mode
    return r


def run(prop, tier, seed):
    cfgs = MATRICES[prop](tier)
    q, t, dfs = BOUNDS[prop]
    depth, states = q if tier == 'quick' else t
    rep = Report(prop, tier, seed, 'model_checking', RULES[prop], assumptions=[
        'wrapper code is deterministic in (closure cells, cache, archive, arguments, chooser answers)',
        'statistics are excluded from the state hash (write-only counters); checked per transition',
        'argument values are small distinct ints; results are strings (tuples where noted)',
    ])
    tasks = []
    for cfg in cfgs:
        persistent = cfg['backend'].split(':')[-1] in cachemc.PERSISTENT
        d = min(depth, 4 if tier == 'quick' else 5) if persistent else cfg.get('depth', depth)
        st = min(states, 400 if tier == 'quick' else 2500) if persistent else cfg.get('states', states)
        if prop == 'C01' and tier == 'quick' and not persistent and (cfg.get('fn') or cfg.get('keymap', 'default') != 'default'):
            st = min(st, 700)
        tasks.append((prop, cfg, 'bfs', d, st, None, tier))
    if tier == 'thorough' and dfs:
        for cfg in cfgs:
            if cfg['backend'].split(':')[-1] in cachemc.PERSISTENT:
                continue
            tasks.append((prop, cfg, 'dfs', dfs, 0, None, tier))
    if prop == 'C20':
        from . import c20meth
        tasks += c20meth.tasks(tier)
    for res in pool.run_configs(_worker, tasks, seed=seed):
        rep.merge(res)
    rep.extra['bounds'] = {'bfs_depth_cap': depth, 'bfs_state_cap': states,
                           'dfs_depth': dfs if tier == 'thorough' else 0}
    rep.extra['alphabet_example'] = [list(e) for e in ev_for(prop, cfgs[0], tier)]
    rep.extra['closure_note'] = 'configs_closed = configurations whose BFS reached a fixed point (covers histories of every length)'
    return rep.finish()
