"""C13 crashmc: crash atomicity of archive writes.

For every (archive configuration, prior state, mutating operation): one run in
log mode records the libc file-system calls the operation issues; then the
operation is re-run once per crash point (before each mutating call, and after
each short-write prefix of every write) with the process SIGKILLed there by the
fsgate shim, and a fresh process recovers the archive.
"""
import collections

from ..core import pool
from ..core.evidence import Report
from ..engines import fsgate

ABSENT = '<absent>'
QUERY_KINDS = ('stat', 'access', 'open', 'opendir', 'listdir', 'read', 'pread', 'rdlock', 'wrlock', 'unlock', 'yield')
WRITE_KINDS = ('write', 'pwrite', 'writev')

BACKENDS_Q = ['dir', 'dir-json', 'dir-source', 'dir-compressed', 'file', 'file-json', 'file-source', 'sql']
BIG = 'B' * 20000


def v(sig, detail, replay):
    sig = dict(sig)
    sig['engine'] = 'crashmc'
    sig['property'] = 'C13'
    r = {'engine': 'crashmc', 'property': 'C13'}
    r.update(replay)
    return {'sig': sig, 'detail': detail, 'replay': r}


PRIORS = {
    'empty': [],
    'one': [('set', 'k1', 'old1')],
    'two': [('set', 'k1', 'old1'), ('set', 'k2', 'old2')],
    # a store with a past: an overwritten key, a deleted key, a falsy value (start from non-initial states)
    'churned': [('set', 'k1', 'x'), ('set', 'k2', 'old2'), ('set', 'k4', 'gone'), ('set', 'k1', 'old1'), ('del', 'k4'),
                ('set', 'k5', None)],
    # keys that dir_archive cannot read back from the directory name alone (it keeps the key itself in a second file
    # of the entry): an int, and a string with a dash
    'oddkeys': [('set', 'k1', 'old1'), ('set', 7, 'old7'), ('set', 'a-b', 'olddash')],
}


def prior_dict(ops):
    P = {}
    for o in ops:
        if o[0] == 'set':
            P[o[1]] = o[2]
        elif o[0] == 'del':
            P.pop(o[1], None)
    return P


PRE = (('set', 'k2', 'pre2'), ('get', 'k1'))      # fault-free operations on the same handle before the crashing one


def state_before(prior, pre):
    """model state when the crashing operation starts: the prior store, then the fault-free operations `pre`"""
    P = prior_dict(prior)
    for o in pre:
        P = model_after(P, o)
        assert P is not None, 'popitem is not usable as a fault-free first operation (its effect is not determined)'
    return P


def operations(tier, backend=None):
    ops = _operations(tier)
    if backend == 'file-json':
        # (a JSON object has string keys only: a json *file* archive cannot hold the int key, whatever happens)
        ops = [o for o in ops if 'intkey' not in o[0] and 'oddkeys' not in o[0]]
    return ops


def _operations(tier):
    ops = [
        ('set-new', ('set', 'k3', 'new3')),
        ('overwrite', ('set', 'k1', 'new1')),
        ('update', ('update', (('k1', 'new1'), ('k3', 'new3')))),
        ('del', ('del', 'k1')),
        ('pop', ('pop', 'k1')),
        ('popitem', ('popitem',)),
        ('setdefault', ('setdefault', 'k3', 'new3')),
        ('setdefault-present', ('setdefault', 'k1', 'new1')),
        ('clear', ('clear',)),
        ('dump', ('dump', (('k1', 'new1'), ('k3', 'new3')))),
        ('open-cached', ('open', True)),
        ('open-direct', ('open', False)),
        ('popkeys', ('popkeys', ('k1', 'k2'))),
        ('popkeys-default', ('popkeys', ('k1', 'k9'), 'dflt')),
        ('dump-one-key', ('dumpk', (('k1', 'new1'), ('k3', 'new3')), 'k3')),
        ('sync-clear', ('syncclear', (('k1', 'new1'), ('k3', 'new3')))),
        ('sync', ('sync', (('k1', 'new1'), ('k3', 'new3')))),
        ('set-none', ('set', 'k3', None)),
        ('update-empty', ('update', ())),
        ('copy', ('copy',)),
        ('set-intkey', ('set', 7, 'seven')),        # (a non-string key: dir_archive keeps the key itself in a second file)
        ('overwrite-intkey', ('set', 7, 'new7')),
        ('overwrite-dashkey', ('set', 'a-b', 'newdash')),
        ('update-oddkeys', ('update', ((7, 'new7'), ('a-b', 'newdash'), ('k3', 'new3')))),
        ('del-intkey', ('del', 7)),
    ]
    if tier == 'thorough':
        ops += [('set-big', ('set', 'k3', BIG)), ('overwrite-big', ('set', 'k1', BIG))]
    return ops


def model_after(P, op):
    Q = dict(P)
    k = op[0]
    if k == 'set':
        Q[op[1]] = op[2]
    elif k in ('update', 'dump', 'sync'):
        Q.update(dict(op[1]))
    elif k == 'dumpk':
        Q[op[2]] = dict(op[1])[op[2]]
    elif k == 'syncclear':
        Q.clear()
        Q.update(dict(op[1]))
    elif k == 'popkeys':
        for q in op[1]:
            Q.pop(q, None)
    elif k in ('del', 'pop'):
        Q.pop(op[1], None)
    elif k == 'setdefault':
        Q.setdefault(op[1], op[2])
    elif k == 'clear':
        Q.clear()
    elif k == 'popitem':
        return None
    return Q


def written_keys(op, P):
    """keys whose entry the operation (re)writes, given the state it starts from -- also when the value stays the same"""
    k = op[0]
    if k == 'set':
        return {op[1]}
    if k in ('update', 'dump', 'sync', 'syncclear'):
        return set(dict(op[1]))
    if k == 'dumpk':
        return {op[2]}
    if k == 'setdefault':
        return set() if op[1] in P else {op[1]}
    return set()


def applicable(P, op):
    k = op[0]
    if k in ('del', 'pop') and op[1] not in P:
        return False
    if k == 'popitem' and not P:
        return False
    if k == 'popkeys' and len(op) == 2 and any(q not in P for q in op[1]):
        return False
    if k == 'set' and op[1] == 'k1' and 'k1' not in P:
        return False
    if k == 'set' and op[1] in (7, 'a-b') and (op[2] in ('new7', 'newdash')) != (op[1] in P):
        return False        # overwrite-* need the key to exist, set-intkey needs it not to
    if k == 'update' and 7 in dict(op[1]) and 7 not in P:
        return False
    if k == 'setdefault' and op[1] == 'k1' and 'k1' not in P:
        return False
    return True


def stages(P, op, Q):
    """states at the boundaries of the listed operations an API call is composed of.  C13 lists set, update,
    delete, pop, clear and dump as the operations that must be atomic per key; cache.sync(clear=True) is by
    definition clear() followed by dump(), so the state between the two is a legitimate place to be killed"""
    if op[0] == 'syncclear':
        return [P, {}, Q]
    return [P, Q]


def check_recovery(rec, P, Q, ctx, mid=(), written=()):
    """oracle: list of (rule, extra-sig, detail); mid = further legitimate intermediate states"""
    out = []
    if rec is None or not isinstance(rec, dict):
        return [('recovery-process-failed', {}, 'recovery process returned %r' % (rec,))]
    for name in ('open', 'len', 'keys', 'asdict', 'items', 'load', 'cached-open-load', 'asdict-again'):
        r = rec.get(name)
        if r is None:
            if name != 'open' and rec.get('open', ('ret',))[0] == 'exc':
                continue
            out.append(('recovery-raises', {'read': name}, '%s missing from recovery' % name))
        elif r[0] != 'ret':
            out.append(('recovery-raises', {'read': name, 'exc': r[1]}, 'after the crash, %s raised %s: %s' % (name, r[1], r[2])))
    if out:
        return out
    R = dict(rec['asdict'][1])
    for k in R:
        if k not in P and k not in Q:
            out.append(('phantom-key', {}, 'recovered archive holds key %r that was never stored (prior %r, intended %r)' % (k, P, Q)))
    for k in set(P) | set(Q):
        got = R.get(k, ABSENT)
        if got != P.get(k, ABSENT) and got != Q.get(k, ABSENT) and not any(got == M.get(k, ABSENT) for M in mid):
            touched = P.get(k, ABSENT) != Q.get(k, ABSENT) or k in written
            out.append(('touched-key-neither-old-nor-new' if touched else 'untouched-key-changed',
                        {'lost': got == ABSENT, 'overwrites_existing': k in written and k in P},
                        'key %r recovered as %s; previous value %s, new value %s' % (
                            k, _short(got), _short(P.get(k, ABSENT)), _short(Q.get(k, ABSENT)))))
    # all reads agree with each other
    want = sorted(R.items(), key=repr)
    views = {'len': len(R), 'keys': sorted(R.keys(), key=repr), 'items': want, 'load': want,
             'cached-open-load': want, 'asdict-again': want}
    for name, w in views.items():
        if rec[name][1] != w:
            out.append(('inconsistent-reads', {'read': name}, '%s gives %s but __asdict__ gives %s' % (name, _short(rec[name][1]), _short(want))))
    return out


def check_post(r, post_ops):
    """after the crash another process stored something else (no faults): a fresh process must now see what it saw right
    after the crash plus exactly that -- differential oracle, no hand-written expectation"""
    out = []
    rec1, rec2 = r['recovery'], r.get('recovery2')
    for i, pr in enumerate(r.get('post_result') or [('exc', 'NoResult', '')]):
        if pr[0] != 'ret':
            out.append(('store-after-recovery-fails', {'exc': pr[1]}, 'after the crash, %r raised %s: %s' % (post_ops[min(i, len(post_ops) - 1)], pr[1], pr[2])))
    if out:
        return out
    want = dict(rec1['asdict'][1])
    for op in post_ops:
        want = model_after(want, op)
    bad = check_recovery(rec2, want, want, '')
    return [('after-later-store-' + rule, extra, 'after the crash a fresh process saw %s; then another process did %r; now: %s' % (
        _short(sorted(dict(rec1['asdict'][1]).items(), key=repr)), list(post_ops), detail)) for rule, extra, detail in bad]


def _short(x):
    s = repr(x)
    return s if len(s) < 80 else s[:40] + '...' + s[-20:]


def _task(task):
    tier, backend, prior_name, opname, op = task[:5]
    pre = task[5] if len(task) > 5 else ()
    opts = task[7] if len(task) > 7 else {}
    res = {'counts': collections.Counter(), 'violations': [], 'samples': [], 'nontrivial': 0, 'outcomes': set(),
           'caps': [], 'config': task[1:4]}
    name = '%s prior=%s%s op=%s%s' % (backend, prior_name, ('+same-handle-first-did:%s' % (task[6],) if len(task) > 6 and task[6] else '+same-handle-wrote-before') if pre else '', opname,
                                      ' [handles restored from one pickle; afterwards another process stores k9]' if opts else '')
    srv = fsgate.server()
    prior = PRIORS[prior_name]
    P = state_before(prior, pre)
    base = {'backend': backend, 'prior': prior, 'op': op, 'pre_ops': list(pre)}
    base.update(opts)

    def run(mode, kill_at=-1, kill_short=0):
        spec = dict(base)
        spec.update(root=pool.fresh_dir('k'), mode=mode, kill_at=kill_at, kill_short=kill_short)
        try:
            return srv.request({'cmd': 'crash', 'spec': spec})
        finally:
            pool.rm(spec['root'])

    log = run('log')
    res['counts']['evaluations'] += 1
    res['counts']['histories'] += 1
    sigbase = {'backend': backend, 'op': opname, 'prior': prior_name}
    if len(task) > 6 and task[6]:
        sigbase['first_op'] = task[6]
    if opts:
        sigbase['handle_via'] = opts.get('handle_via', 'constructor')
    rep = {'backend': backend, 'prior': prior_name, 'opname': opname, 'op': list(op), 'pre_ops': [list(o) for o in pre], 'opts': opts}
    if log['result'] is None or log['result'][0] not in ('ret',):
        res['violations'].append(v(dict(sigbase, rule='operation-fails-without-crash'),
                                   '%s: operation failed without any fault: %r' % (name, log['result']), dict(rep, kill_at=None)))
        return _fin(res, name)
    Q = model_after(P, op)
    recR = log['recovery']
    if Q is None:       # popitem: whatever the deterministic run removed
        Q = dict(recR['asdict'][1]) if recR and recR.get('asdict', ('exc',))[0] == 'ret' else dict(P)
    for rule, extra, detail in check_recovery(recR, Q, Q, name):
        res['violations'].append(v(dict(sigbase, rule='no-crash-' + rule, **extra), '%s (no crash): %s' % (name, detail), dict(rep, kill_at=None)))
    events = [e.split(' ', 2) for e in log['events']]
    kinds = [e[1].split(':')[0] for e in events]
    points = [i for i, k in enumerate(kinds) if k not in QUERY_KINDS]
    res['counts']['fs_events'] += len(events)
    prev_mut = None
    for i in points:
        kind = kinds[i]
        shorts = [0]
        if kind in WRITE_KINDS:
            shorts = [0, 1, 2, 3] if tier == 'thorough' else [0, 2]
        for sh in shorts:
            r = run('kill', i, sh)
            res['counts']['evaluations'] += 1
            res['counts']['crash_points'] += 1
            if not r['killed']:
                raise RuntimeError('nondeterminism not owned: %s was not killed at event %d (%s); events now %r' % (name, i, kind, r['events'][-3:]))
            found = check_recovery(r['recovery'], P, Q, name, mid=stages(P, op, Q)[1:-1],
                                   written=written_keys(op, {} if op[0] == 'syncclear' else P))
            if opts.get('post_ops') and not found:
                found = check_post(r, opts['post_ops'])
            res['outcomes'].add((kind, tuple(sorted(f[0] for f in found))))
            res['nontrivial'] += 1
            for rule, extra, detail in found:
                sig = dict(sigbase, rule=rule, at=kind, prev=prev_mut or '-', torn=bool(sh))
                sig.update(extra)
                res['violations'].append(v(sig, '%s: killed before %s #%d%s (after %s): %s' % (
                    name, kind, i, ' after a short write (%d)' % sh if sh else '', prev_mut, detail),
                    dict(rep, kill_at=i, kill_short=sh, events=log['events'])))
        prev_mut = kind
    if len(res['samples']) < 1:
        res['samples'].append({'history': name, 'fs_calls': log['events'][:12], 'crash_points': points})
    return _fin(res, name)


def _fin(res, name):
    res['counts'] = dict(res['counts'])
    res['outcomes'] = sorted(map(repr, res['outcomes']))
    res['config_summary'] = name
    return res


def BACKENDS_FAMILY(b):
    from ..engines import archmc
    return archmc.BACKENDS[b][0]


def tasks_for(tier):
    tasks = []
    backs = BACKENDS_Q if tier == 'quick' else BACKENDS_Q + ['dir-memmode']
    for b in backs:
        for pn, prior in PRIORS.items():
            P = prior_dict(prior)
            for opname, op in operations(tier, b):
                if not applicable(P, op):
                    continue
                if tier == 'quick' and pn == 'one' and opname in ('popitem', 'setdefault-present', 'pop', 'popkeys-default', 'sync', 'update-empty'):
                    continue
                if pn == 'oddkeys' and (b == 'file-json' or (tier == 'quick' and not (opname.endswith('intkey') or opname.endswith('dashkey') or opname in ('update-oddkeys', 'clear', 'dump')))):
                    continue
                if tier == 'quick' and pn == 'churned' and opname in ('popitem', 'setdefault', 'setdefault-present', 'pop', 'open-cached', 'update-empty', 'set-none'):
                    continue
                tasks.append((tier, b, pn, opname, op, ()))
        # the crashing operation is not the first thing this handle does
        P = prior_dict(list(PRIORS['one']) + list(PRE))
        for opname, op in operations(tier, b):
            if not applicable(P, op) or op[0] == 'open':
                continue
            if tier == 'quick' and opname not in ('set-new', 'overwrite', 'update', 'del', 'clear', 'dump', 'popkeys', 'sync-clear'):
                continue
            tasks.append((tier, b, 'one', opname, op, PRE))
        # handles restored from one pickle (a pickled cache / memoised function carries its archive so), the crash, and then
        # another such process storing another key: what travels in a handle's state is shared by those processes
        if BACKENDS_FAMILY(b) in ('dir', 'file'):
            for opname, op in operations(tier, b):
                if op[0] == 'open' or 'big' in opname or not applicable(prior_dict(PRIORS['one']), op):
                    continue
                if tier == 'quick' and opname not in ('set-new', 'set-intkey', 'overwrite', 'update', 'del'):
                    continue
                tasks.append((tier, b, 'one', opname, op, (), None, {'handle_via': 'pickle', 'post_ops': [('set', 'k9', 'post9')]}))
        if tier != 'thorough':
            # quick: the one pair family that re-uses per-process temporary names -- this process has already overwritten
            # the key once, and is killed while touching it again
            for opname, op in operations(tier, b):
                if opname in ('overwrite', 'del', 'update', 'clear', 'dump'):
                    tasks.append((tier, b, 'one', opname, op, (('set', 'k1', 'mid1'),), 'overwrite'))
            continue
        # thorough: every ordered pair (first operation without faults, second operation crashed at every point) on one
        # handle, from two prior stores -- the second operation starts from whatever the first one left behind in the
        # handle and on disk (temporary names, cached state, open connections)
        for pn in ('one', 'churned'):
            for name1, op1 in operations(tier, b):
                P0 = prior_dict(PRIORS[pn])
                if op1[0] in ('open', 'popitem') or 'big' in name1 or not applicable(P0, op1):
                    continue
                P = model_after(P0, op1)
                for opname, op in operations(tier, b):
                    if op[0] == 'open' or 'big' in opname or not applicable(P, op):
                        continue
                    tasks.append((tier, b, pn, opname, op, (op1,), name1))
    return tasks


def run(tier, seed):
    rule = ('(archive configuration x prior state x mutating operation) histories; for each, every crash point = before each mutating libc call under the archive root '
            '(create/open-for-write, write, close, mkdir, rename, unlink, rmdir, ftruncate, fsync) plus short-write prefixes of each write; recovery in a fresh process; '
            'non-trivial = each (history, crash point, torn prefix) execution, all distinct by construction')
    rep = Report('C13', tier, seed, 'fault_enumeration', rule, assumptions=[
        'process-kill model: every completed call is durable, nothing after the kill happens (no power-loss reordering)',
        'crash points are libc calls seen by the LD_PRELOAD shim (validated against strace by `vf selftest fsgate`)',
        'buffered stdio writes are flushed by CPython in one write() per <= 8 KiB; torn prefixes are taken at that granularity',
    ])
    fsgate.ensure_built()
    for res in pool.run_configs(_task, tasks_for(tier), seed=seed):
        rep.merge(res)
    return rep.finish()


def replay(doc):
    pool._init_worker(pool.scratch_base())
    backend, pn, op = doc['backend'], doc['prior'], tuple(tuple(tuple(y) if isinstance(y, list) else y for y in x) if isinstance(x, list) else x for x in doc['op'])
    srv = fsgate.server()
    pre = [tuple(o) for o in doc.get('pre_ops', [])]
    P = state_before(PRIORS[pn], pre)
    spec = dict(doc.get('opts') or {})
    spec.update({'backend': backend, 'prior': PRIORS[pn], 'op': op, 'pre_ops': pre, 'root': pool.fresh_dir('k'),
            'mode': 'log' if doc.get('kill_at') is None else 'kill', 'kill_at': doc.get('kill_at') or -1, 'kill_short': doc.get('kill_short', 0)})
    if spec.get('post_ops'):
        spec['post_ops'] = [tuple(o) for o in spec['post_ops']]
    r = srv.request({'cmd': 'crash', 'spec': spec})
    Q = model_after(P, op)
    if Q is None:
        Q = P
    print('killed:', r['killed'], 'recovery:', r['recovery'])
    found = check_recovery(r['recovery'], P if r['killed'] else Q, Q, '', mid=stages(P, op, Q)[1:-1] if r['killed'] else (),
                           written=written_keys(op, {} if op[0] == 'syncclear' else P))
    if not found and spec.get('post_ops') and r['killed']:
        found = check_post(r, spec['post_ops'])
    srv.close()
    return [({'rule': f[0]}, f[2]) for f in found]
