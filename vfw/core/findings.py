"""known_findings.json: committed list of genuine defects that are recorded
rather than repaired.  Read-only at run time.

entry = {property, id, status: "open"|"fixed", signature: {field: pattern},
         what, commit?}
A violation is suppressed (printed as KNOWN-FINDING) only by an *open* entry of
the same property whose every signature field matches the violation's `sig`
field of the same name: exact equality, or fnmatch when the pattern is a string
containing '*', or membership when the pattern is a list.  A violation that
lacks one of the fields does not match.
"""
import fnmatch
import json
import os

ROOT = os.path.dirname(os.path.dirname(os.path.dirname(os.path.abspath(__file__))))
PATH = os.path.join(ROOT, 'known_findings.json')


def load():
    try:
        with open(PATH) as f:
            doc = json.load(f)
    except FileNotFoundError:
        return []
    return doc.get('findings', [])


def _match_one(pat, val):
    if isinstance(pat, list):
        return any(_match_one(p, val) for p in pat)
    if isinstance(pat, str) and isinstance(val, str) and ('*' in pat or '?' in pat):
        return fnmatch.fnmatchcase(val, pat)
    return pat == val


def match(known, prop, violation):
    sig = violation.get('sig', {})
    for f in known:
        props = f.get('property')
        props = props if isinstance(props, list) else [props]
        if f.get('status') != 'open' or prop not in props:
            continue
        want = f.get('signature', {})
        if all(k in sig and _match_one(p, sig[k]) for k, p in want.items()):
            return f
    return None
