"""process pool over configurations + scratch directories on tmpfs"""
import atexit
import multiprocessing as mp
import os
import random
import shutil
import tempfile

_base = None


def scratch_base():
    """per-run scratch root (tmpfs if available); removed at exit of the creating process"""
    global _base
    if _base is not None:
        return _base
    env = os.environ.get('VERIF_SCRATCH')
    if env:
        base = os.path.join(env, 'klepto-verif.%d' % os.getpid())
        os.makedirs(base, exist_ok=True)
    elif os.path.isdir('/dev/shm') and os.access('/dev/shm', os.W_OK):
        base = '/dev/shm/klepto-verif.%d' % os.getpid()
        os.makedirs(base, exist_ok=True)
    else:
        base = tempfile.mkdtemp(prefix='klepto-verif.')
    _base = base
    owner = os.getpid()

    def _cleanup():
        if os.getpid() == owner:
            shutil.rmtree(base, ignore_errors=True)
    atexit.register(_cleanup)
    return base


_counter = [0]


def fresh_dir(tag='s'):
    """a fresh empty directory private to this process"""
    base = os.path.join(scratch_base(), 'w%d' % os.getpid())
    _counter[0] += 1
    d = os.path.join(base, '%s%d' % (tag, _counter[0]))
    os.makedirs(d)
    return d


def rm(d):
    shutil.rmtree(d, ignore_errors=True)


_cov = None


def _init_worker(base):
    global _base, _cov
    _base = base
    d = os.path.join(base, 'w%d' % os.getpid())
    os.makedirs(d, exist_ok=True)
    os.chdir(d)
    # VF_COVERAGE=<dir>: measure which lines / branches of klepto the exploration executes (tools/coverage_report.py);
    # a diagnostic for vacuous alphabets, never used by a registered check
    if os.environ.get('VF_COVERAGE') and _cov is None:
        import coverage
        _cov = coverage.Coverage(data_file=os.path.join(os.environ['VF_COVERAGE'], 'cov'), data_suffix='%d' % os.getpid(),
                                 source_pkgs=['klepto'], branch=True)
        _cov.start()




def ncpu():
    try:
        n = len(os.sched_getaffinity(0))
    except Exception:
        n = os.cpu_count() or 2
    return max(1, min(16, n))


def run_configs(fn, configs, seed=0, procs=None):
    """run fn(config) for every config in a fork pool; yields results.
    VERIF_SEED only permutes the order configurations are handed out."""
    configs = list(configs)
    order = list(range(len(configs)))
    random.Random(seed).shuffle(order)
    base = scratch_base()
    procs = procs or ncpu()
    if procs == 1 or len(configs) <= 1:
        _init_worker(base)
        for i in order:
            yield fn(configs[i])
            if _cov is not None:
                _cov.save()
        os.chdir(base)
        return
    ctx = mp.get_context('fork')
    if os.environ.get('VF_COVERAGE'):
        fn = _CoveredTask(fn)
    with ctx.Pool(procs, initializer=_init_worker, initargs=(base,), maxtasksperchild=None) as pool:
        for res in pool.imap_unordered(fn, [configs[i] for i in order], chunksize=1):
            yield res


class _CoveredTask(object):
    """picklable wrapper that saves the worker's coverage data after every task"""
    def __init__(self, fn):
        self.fn = fn

    def __call__(self, cfg):
        try:
            return self.fn(cfg)
        finally:
            if _cov is not None:
                _cov.save()
