"""Evidence files (/verif/evidence/<id>.json) and violation / known-finding reporting.

A check builds one Report, feeds it results from the engines and calls finish(),
which writes the evidence file, the replay files, prints the VIOLATION /
KNOWN-FINDING lines and returns the exit code.
"""
import hashlib
import json
import os
import sys
import time

from . import findings as _findings

ROOT = os.path.dirname(os.path.dirname(os.path.dirname(os.path.abspath(__file__))))
# VF_OUT=<dir> redirects evidence and replay files (seeded-change runs must not overwrite the committed evidence)
_OUT = os.environ.get('VF_OUT') or ROOT
EVIDENCE_DIR = os.path.join(_OUT, 'evidence')
REPLAY_DIR = os.path.join(_OUT, 'replays')

MAX_REPORTED = 25          # VIOLATION lines printed per run (all are counted)


def jsonable(x):
    """best effort conversion of harness data into JSON-serialisable data"""
    if isinstance(x, (str, int, float, bool)) or x is None:
        if isinstance(x, float) and (x != x or x in (float('inf'), float('-inf'))):
            return repr(x)
        return x
    if isinstance(x, bytes):
        return 'bytes:' + x.hex()
    if isinstance(x, dict):
        return {str(k) if not isinstance(k, str) else k: jsonable(v) for k, v in x.items()}
    if isinstance(x, (list, tuple, set, frozenset)):
        return [jsonable(v) for v in x]
    return repr(x)


class Report(object):
    def __init__(self, prop, tier, seed, level, rule, assumptions=()):
        self.prop = prop
        self.tier = tier
        self.seed = seed
        self.level = level
        self.rule = rule
        self.assumptions = list(assumptions)
        self.t0 = time.time()
        self.counts = {}            # additive integer counters
        self.nontrivial = set()     # digests of distinct non-trivial cases
        self.nontrivial_extra = 0   # counted inside workers (already distinct there)
        self.samples = []
        self.extra = {}             # free-form coverage keys
        self.exhaustive = True
        self.caps = []
        self.violations = []        # dicts: {sig, detail, replay(doc)}
        self.known_seen = {}
        self.configs = []
        self.outcomes = set()

    # ---- accumulation -------------------------------------------------
    def count(self, key, n=1):
        self.counts[key] = self.counts.get(key, 0) + n

    def sample(self, s, limit=12):
        if len(self.samples) < limit:
            self.samples.append(jsonable(s))

    def cap(self, what):
        self.exhaustive = False
        if what not in self.caps:
            self.caps.append(what)

    def merge(self, res):
        """merge a result dict returned by an engine worker"""
        for k, v in res.get('counts', {}).items():
            self.count(k, v)
        self.nontrivial_extra += res.get('nontrivial', 0)
        for s in res.get('samples', []):
            self.sample(s)
        for c in res.get('caps', []):
            self.cap(c)
        for v in res.get('violations', []):
            self.violations.append(v)
        if 'config' in res:
            self.configs.append(jsonable(res['config_summary']) if 'config_summary' in res
                                else jsonable(res['config']))
        for o in res.get('outcomes', []):
            self.outcomes.add(o)

    # ---- finish ---------------------------------------------------------
    def finish(self):
        os.makedirs(EVIDENCE_DIR, exist_ok=True)
        os.makedirs(REPLAY_DIR, exist_ok=True)
        for old in os.listdir(REPLAY_DIR):
            if old.startswith(self.prop + '-') and old.endswith('.json'):
                os.unlink(os.path.join(REPLAY_DIR, old))
        known = _findings.load()
        new, seen = [], {}
        for v in self.violations:
            f = _findings.match(known, self.prop, v)
            if f is not None:
                seen.setdefault(f['id'], [f, 0])
                seen[f['id']][1] += 1
            else:
                new.append(v)
        # de-duplicate new violations by signature
        bysig = {}
        for v in new:
            key = json.dumps(jsonable(v.get('sig', {})), sort_keys=True)
            bysig.setdefault(key, []).append(v)
        lines = []
        for key, vs in sorted(bysig.items()):
            v = min(vs, key=lambda v: len(json.dumps(jsonable(v.get('replay', {})))))
            doc = dict(jsonable(v.get('replay', {})))
            doc.setdefault('property', self.prop)
            doc['sig'] = jsonable(v.get('sig', {}))
            doc['detail'] = jsonable(v.get('detail', ''))
            doc['occurrences'] = len(vs)
            h = hashlib.md5(key.encode()).hexdigest()[:10]
            path = os.path.join(REPLAY_DIR, '%s-%s.json' % (self.prop, h))
            with open(path, 'w') as f:
                json.dump(doc, f, indent=1, sort_keys=True)
            lines.append((path, v))
        for fid, (f, n) in sorted(seen.items()):
            print('KNOWN-FINDING: property=%s %s [%s; %d occurrence(s) this run]'
                  % (self.prop, f['what'], fid, n))
        for path, v in lines[:MAX_REPORTED]:
            print('VIOLATION property=%s replay=%s' % (self.prop, path))
            print('  sig: %s' % json.dumps(jsonable(v.get('sig', {})), sort_keys=True))
            d = v.get('detail', '')
            if d:
                print('  detail: %s' % (str(d)[:600]))
        if len(lines) > MAX_REPORTED:
            print('... %d further distinct violation signatures (replays written)'
                  % (len(lines) - MAX_REPORTED))

        cov = dict(self.extra)
        cov.update(self.counts)
        evaluations = cov.get('evaluations', cov.get('transitions', 0))
        cov['evaluations'] = int(evaluations)
        cov['distinct_nontrivial'] = int(len(self.nontrivial) + self.nontrivial_extra)
        cov['rule'] = self.rule
        cov['samples'] = self.samples or ['(none)']
        cov['exhaustive'] = bool(self.exhaustive)
        cov['caps_hit'] = self.caps
        if self.configs:
            cov['configurations'] = len(self.configs)
            cov['configuration_list'] = self.configs[:400]
        if self.outcomes:       # (engines that classify observations; the enumerating checks report distinct_nontrivial instead)
            cov['distinct_outcomes'] = len(self.outcomes)
        cov['known_findings_seen'] = {fid: n for fid, (f, n) in seen.items()}
        try:
            import klepto
            cov['klepto_imported_from'] = os.path.dirname(os.path.abspath(klepto.__file__))
        except Exception as e:
            cov['klepto_imported_from'] = 'import failed: %r' % (e,)
        if self.level == 'model_checking':
            cov.setdefault('states', 0)
            cov.setdefault('transitions', 0)
            cov.setdefault('traces_validated_against_impl', cov.get('transitions', 0))
        doc = {
            'property_id': self.prop,
            'tier': self.tier,
            'seed': int(self.seed),
            'level': self.level,
            'coverage': jsonable(cov),
            'assumptions': self.assumptions,
            'wall_s': round(time.time() - self.t0, 3),
            'violations': len(lines),
        }
        with open(os.path.join(EVIDENCE_DIR, '%s.json' % self.prop), 'w') as f:
            json.dump(doc, f, indent=1, sort_keys=True)
        brief = {k: v for k, v in cov.items()
                 if isinstance(v, (int, bool)) and k not in ('exhaustive',)}
        capsum = {}
        for c in self.caps:
            k = c.split(' in ')[0]
            capsum[k] = capsum.get(k, 0) + 1
        print('%s %s: %s exhaustive=%s caps=%s wall=%.1fs' % (
            self.prop, self.tier, ' '.join('%s=%s' % kv for kv in sorted(brief.items())),
            cov['exhaustive'], capsum, doc['wall_s']))
        sys.stdout.flush()
        return 1 if lines else 0
