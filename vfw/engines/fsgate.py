"""client side of the fsgate shim: build the .so, start a preloaded server, send requests"""
import os
import pickle
import struct
import subprocess
import sys

HERE = os.path.dirname(os.path.abspath(__file__))
ROOT = os.path.dirname(os.path.dirname(HERE))
SRC = os.path.join(ROOT, 'fsgate', 'fsgate.c')
SO = os.path.join(ROOT, 'build', 'fsgate.so')


def ensure_built():
    if not os.path.exists(SO) or os.path.getmtime(SO) < os.path.getmtime(SRC):
        os.makedirs(os.path.dirname(SO), exist_ok=True)
        tmp = SO + '.%d.tmp' % os.getpid()
        subprocess.check_call(['gcc', '-O2', '-shared', '-fPIC', '-o', tmp, SRC, '-ldl'])
        os.replace(tmp, SO)
    return SO


class Server(object):
    """one preloaded interpreter; requests are executed in children it forks"""
    def __init__(self):
        env = dict(os.environ)
        env['LD_PRELOAD'] = ensure_built()
        env['PYTHONPATH'] = ROOT + os.pathsep + env.get('PYTHONPATH', '')
        env['PYTHONHASHSEED'] = '0'
        env['FSG_SERVER'] = '1'
        self.p = subprocess.Popen([sys.executable, '-m', 'vfw.engines.fsserver'], stdin=subprocess.PIPE,
                                  stdout=subprocess.PIPE, env=env, cwd=os.getcwd())
        assert self.request({'cmd': 'ping'}) == 'pong'

    def request(self, req):
        data = pickle.dumps(req)
        self.p.stdin.write(struct.pack('<I', len(data)) + data)
        self.p.stdin.flush()
        hdr = self.p.stdout.read(4)
        if len(hdr) < 4:
            raise RuntimeError('fsgate server died')
        n = struct.unpack('<I', hdr)[0]
        status, res = pickle.loads(self.p.stdout.read(n))
        if status != 'ok':
            raise RuntimeError('fsgate server error: %s' % res)
        return res

    def close(self):
        try:
            self.p.stdin.close()
            self.p.wait(timeout=10)
        except Exception:
            self.p.kill()


_server = {}


def server():
    s = _server.get(os.getpid())
    if s is None:
        s = Server()
        _server[os.getpid()] = s
    return s
