"""E2 archmc: archives against a dict.

Explicit-state BFS over dict-protocol operation sequences applied to the real
archive objects (scratch file system / sqlite) and to a plain `dict`; after
every step contents, length and every *other* archive in the scenario are
compared.  See DESIGN.md section 3.
"""
import collections
import hashlib
import os
import sys
import time

from ..core import pool

import warnings
# klepto warns once per read that a compressed file is not memory-mapped (compression + memmode configurations)
warnings.filterwarnings('ignore', message='.*appears to be a zip.*')


# --------------------------------------------------------------------------
# environment seam: sqlite's busy timeout (default 5 s of real sleeping) is shortened so that a
# lock conflict inside one exploration shows up as the same 'database is locked' error quickly

def _short_busy_timeout():
    import sqlite3
    if getattr(sqlite3.connect, '_vf_wrapped', False) or os.environ.get('FSG_SERVER'):
        return      # (under the shim sleeps return at once: the full busy budget costs no time)
    real = sqlite3.connect

    def connect(*a, **k):
        k.setdefault('timeout', 0.05)
        return real(*a, **k)
    connect._vf_wrapped = True
    sqlite3.connect = connect


_short_busy_timeout()


# --------------------------------------------------------------------------
# values

def module_function(x):
    return x + 1


class Unencodable(object):
    """a value no encoder can store: pickling, repr and json all fail"""
    def __reduce__(self):
        raise ValueError('Unencodable: cannot be pickled')

    def __reduce_ex__(self, proto):
        raise ValueError('Unencodable: cannot be pickled')

    def __repr__(self):
        raise ValueError('Unencodable: no repr')

    def __eq__(self, other):
        return isinstance(other, Unencodable)

    def __hash__(self):
        return 7


UNENC = Unencodable()
# an int sqlite cannot bind (wider than 64 bits): fails with OverflowError, which is not an sqlite3.Error
BIGINT = 2 ** 70

VALUE_SETS = {
    'pickle': [(1, 'v'), (None, [1, {'x': 2.5}]), (float('inf'), b'\x00\xff'), (module_function, ('t', 1))],
    'json': [(1, 'v'), (None, [1, {'x': 2.5}]), (2.5, True)],
    'source': [(1, 'v'), ([1, {'x': 2.5}], None)],
    'sql': [(1, 'v'), (None, 2.5), (b'\x00\xff', 'w')],
    'mem': [(1, 'v'), (None, [1, {'x': 2.5}])],
}

import pickle as _pickle
PK1 = _pickle.dumps(1, protocol=2)
MD5 = hashlib.md5(b'1').hexdigest()

KEY_SETS = {
    # last triple: keys that begin with the characters of dir_archive's own K_ prefix, and a negative int
    # (klepto's hashmap produces negative ints)
    'pickle': [('a-b', 'a_b', 'c'), (1, '1', 'c'), ((1, 2), '(1, 2)', 'c'), (PK1, MD5, 'c'), ('Kelvin', '_hidden', -7)],
    'hostile': [('', 'x/y', '.')],
    'long': [('L' * 300 + 'a', 'L' * 300 + 'b', 'L' * 245 + 'c')],
    'json': [('a-b', 'a_b', 'c'), ('1', '(1, 2)', 'c')],
    'source': [('a-b', 'a_b', 'c'), (1, '1', 'c')],
    'sql': [(1, '1', b'\x01'), ('a-b', 'a_b', 'c'), ('Kelvin', '_hidden', -7)],
}


# --------------------------------------------------------------------------
# backends

BACKENDS = {
    # name: (family, encoding, ctor kwargs)
    'dict': ('mem', 'mem', {}),
    'null': ('null', 'mem', {}),
    'file': ('file', 'pickle', {}),
    'file-json': ('file', 'json', {'protocol': 'json'}),
    'file-source': ('file', 'source', {'serialized': False}),
    'dir': ('dir', 'pickle', {}),
    'dir-json': ('dir', 'json', {'protocol': 'json'}),
    'dir-source': ('dir', 'source', {'serialized': False}),
    'dir-compressed': ('dir', 'pickle', {'compression': 3}),
    'dir-memmode': ('dir', 'pickle', {'memmode': 'r'}),
    # option combinations (each option alone is covered above)
    'dir-compressed-memmode': ('dir', 'pickle', {'compression': 3, 'memmode': 'r+'}),
    'dir-json-compressed': ('dir', 'pickle', {'protocol': 'json', 'compression': 3}),
    'dir-json-memmode': ('dir', 'pickle', {'protocol': 'json', 'memmode': 'r'}),
    'sql': ('sql', 'sql', {}),
    'sql-memory': ('sqlmem', 'sql', {}),
    # the same stores addressed by a name relative to the working directory at open time
    'dir-relname': ('dir', 'pickle', {}),
    'file-relname': ('file', 'pickle', {}),
    'sql-relname': ('sql', 'sql', {}),
    # a source-text file archive whose name is given without the .py suffix klepto appends
    'file-source-bare': ('file', 'source', {'serialized': False}),
}

RELNAME = ('dir-relname', 'file-relname', 'sql-relname')

PERSISTENT = ('file', 'dir', 'sql')


def location(backend, root, name='arch'):
    fam, enc, kw = BACKENDS[backend]
    if backend in RELNAME:
        # relative to the working directory, which is `root` while the store is opened (see open_backend)
        return {'file': name + '.pkl', 'dir': name, 'sql': 'sqlite:///%s.db?table=memo' % name}[fam]
    if backend == 'file-source-bare':
        return os.path.join(root, name)
    if fam == 'file':
        ext = {'pickle': '.pkl', 'json': '.json', 'source': '.py'}[enc]
        return os.path.join(root, name + ext)
    if fam == 'dir':
        return os.path.join(root, name)
    if fam == 'sql':
        return 'sqlite:///%s?table=memo' % os.path.join(root, name + '.db')
    if fam == 'sqlmem':
        return None
    return name


def _cwd():
    try:
        return os.path.realpath(os.getcwd())
    except OSError:          # the directory this process stood in has been removed
        return None


def open_backend(backend, root, name='arch', cached=False, seed=None):
    """seed: initial contents passed to the public constructor as dict=... (merged into what the store holds)"""
    if backend in RELNAME and _cwd() != os.path.realpath(root):
        cwd = _cwd() or os.path.dirname(root)
        os.chdir(root)
        try:
            return open_backend(backend, root, name, cached, seed)
        finally:
            os.chdir(cwd)
    import klepto.archives as ka
    fam, enc, kw = BACKENDS[backend]
    if seed is not None:
        kw = dict(kw, dict=dict(seed))
    loc = location(backend, root, name)
    if fam == 'mem':
        return ka.dict_archive(loc, cached=cached)
    if fam == 'null':
        return ka.null_archive(loc, cached=cached)
    if fam == 'file':
        return ka.file_archive(loc, cached=cached, **kw)
    if fam == 'dir':
        return ka.dir_archive(loc, cached=cached, **kw)
    if fam in ('sql', 'sqlmem'):
        return ka.sqltable_archive(loc, cached=cached, **kw)
    raise ValueError(backend)


def encodable(backend, value):
    fam, enc, kw = BACKENDS[backend]
    if isinstance(value, Unencodable):
        return enc == 'mem'
    if enc == 'sql' and isinstance(value, (list, dict, tuple, set)):
        return False
    if enc == 'sql' and isinstance(value, int) and not isinstance(value, bool) and abs(value) >= 2 ** 63:
        return False
    return True


def close(a):
    a = getattr(a, 'archive', a)
    conn = getattr(a, '_conn', None)
    if conn is not None:
        try:
            conn.close()
        except Exception:
            pass


def concrete_state(backend, root, a=None):
    """concrete (not abstract) persistent state used for dedup: directory listing
    with file bytes (temp names normalised) / sqlite rows in rowid order"""
    fam = BACKENDS[backend][0]
    if fam in ('file', 'dir'):
        h = hashlib.md5()
        for dp, dns, fns in sorted(os.walk(root)):
            dns.sort()
            rel = os.path.relpath(dp, root)
            if '__pycache__' in rel:
                continue
            dns[:] = [d for d in dns if d != '__pycache__']
            h.update(('D:' + _normtemp(rel) + '\n').encode())
            for fn in sorted(fns):
                if fn.endswith('.pyc'):
                    continue
                h.update(('F:' + _normtemp(fn) + '\n').encode())
                try:
                    with open(os.path.join(dp, fn), 'rb') as f:
                        h.update(f.read())
                except OSError:
                    h.update(b'?')
        return h.hexdigest()
    if fam in ('sql', 'sqlmem') and a is not None:
        arch = getattr(a, 'archive', a)
        try:
            rows = list(arch._engine.execute('select rowid, argstr, fval from %s order by rowid' % arch.__state__['id']))
            # rowids themselves are irrelevant; order and content matter
            mine = repr([(k, v) for _, k, v in rows])
            if fam != 'sql':
                return mine
            # ... and the rows that are durable, i.e. what a second connection reads (differs from `mine` exactly when
            # the handle sits in an uncommitted transaction)
            import sqlite3
            path = os.path.join(root, 'arch.db')
            try:
                con = sqlite3.connect(path, timeout=0.05)
                try:
                    durable = repr(list(con.execute('select argstr, fval from %s order by rowid' % arch.__state__['id'])))
                finally:
                    con.close()
            except Exception as e:
                durable = 'ERR %s' % type(e).__name__
            return (mine, durable)
        except Exception as e:
            return 'ERR %r' % (e,)
    return None


def _normtemp(name):
    import re
    return re.sub(r'\.I_[0-9a-f]{32}', '.I_#', name)


# --------------------------------------------------------------------------
# operations: tuples ('op', args...) applied to model (dict) and implementation

class PopItemAny(object):
    pass


def model_apply(m, op, backend, other_m=None):
    """apply op to the dict model; returns ('ret', value) or ('exc', class-name);
    for a null archive the model discards every write"""
    null = BACKENDS[backend][0] == 'null'
    k = op[0]
    try:
        if k == 'setitem':
            if not encodable(backend, op[2]):
                return ('exc', 'ENCODE')
            if not null:
                m[op[1]] = op[2]
            return ('ret', None)
        if k == 'getitem':
            return ('ret', m[op[1]])
        if k == 'delitem':
            del m[op[1]]
            return ('ret', None)
        if k == 'contains':
            return ('ret', op[1] in m)
        if k == 'len':
            return ('ret', len(m))
        if k in ('iter', 'keys'):
            return ('ret', _sorted(list(m.keys())))
        if k == 'values':
            return ('ret', _sorted(list(m.values())))
        if k == 'items':
            return ('ret', _sorted(list(m.items())))
        if k == 'get':
            return ('ret', m.get(*op[1:]))
        if k == 'pop':
            return ('ret', m.pop(*op[1:]))
        if k == 'popitem':
            if not m:
                raise KeyError('empty')
            return ('ret', PopItemAny)
        if k == 'popkeys':
            keys = op[1]
            if len(op) > 2:
                return ('ret', [m.pop(q, op[2]) for q in keys])
            # without a default every requested key must be poppable *in sequence* (a key listed twice is gone the
            # second time); a failing call removes nothing
            trial = dict(m)
            for q in keys:
                if q not in trial:
                    raise KeyError(q)
                del trial[q]
            return ('ret', [m.pop(q) for q in keys])
        if k == 'setdefault':
            if len(op) > 2 and not encodable(backend, op[2]) and op[1] not in m:
                return ('exc', 'ENCODE')
            if null:
                return ('ret', m.get(*op[1:]))
            return ('ret', m.setdefault(*op[1:]))
        if k in ('update', 'update_pairs', 'update_kw'):
            items = list(op[1])
            if any(not encodable(backend, v) for _, v in items):
                return ('exc', 'ENCODE')
            if not null:
                m.update(items)
            return ('ret', None)
        if k == 'clear':
            m.clear()
            return ('ret', None)
        if k in ('pop_toomany', 'setdefault_toomany'):
            return ('exc', 'TypeError')        # dict.pop / dict.setdefault take at most two arguments
        if k == 'repr':
            if any(isinstance(v, Unencodable) for v in m.values()):
                return ('exc', 'ANY')          # a dict's repr fails, too, when a contained object's repr fails
            return ('ret', 'REPR')
        if k == 'eq_foreign':
            return ('ret', (False, True))
        if k == 'popkeys_scalar':
            # a single non-iterable key instead of a list of keys: pop(key[, default])
            return ('ret', m.pop(*op[1:]))
        if k in ('copy', 'copyname', 'eq_same', 'eq_diff', 'ne_same', 'ne_diff', 'reopen', 'reopen_seed', 'mutate'):
            return ('ret', None)
    except KeyError:
        return ('exc', 'KeyError')
    raise ValueError(op)


def _sorted(xs):
    return sorted(xs, key=lambda x: (type(x).__name__, describe(x)))


def impl_apply(a, op):
    k = op[0]
    try:
        if k == 'setitem':
            a[op[1]] = op[2]
            return ('ret', None)
        if k == 'getitem':
            return ('ret', a[op[1]])
        if k == 'delitem':
            del a[op[1]]
            return ('ret', None)
        if k == 'contains':
            return ('ret', op[1] in a)
        if k == 'len':
            return ('ret', len(a))
        if k == 'iter':
            return ('ret', _sorted(list(iter(a))))
        if k == 'keys':
            return ('ret', _sorted(list(a.keys())))
        if k == 'values':
            return ('ret', _sorted(list(a.values())))
        if k == 'items':
            return ('ret', _sorted(list(a.items())))
        if k == 'get':
            return ('ret', a.get(*op[1:]))
        if k == 'pop':
            return ('ret', a.pop(*op[1:]))
        if k == 'popitem':
            return ('ret', a.popitem())
        if k == 'popkeys':
            return ('ret', a.popkeys(list(op[1]), *op[2:]))
        if k == 'setdefault':
            return ('ret', a.setdefault(*op[1:]))
        if k == 'update':
            a.update(dict(op[1]))
            return ('ret', None)
        if k == 'update_pairs':
            a.update(list(op[1]))
            return ('ret', None)
        if k == 'update_kw':
            a.update(**dict(op[1]))
            return ('ret', None)
        if k == 'clear':
            a.clear()
            return ('ret', None)
        if k == 'pop_toomany':
            return ('ret', a.pop(op[1], 'd1', 'd2'))
        if k == 'setdefault_toomany':
            return ('ret', a.setdefault(op[1], 'd1', 'd2'))
        if k == 'repr':
            r = repr(a)
            return ('ret', 'REPR' if isinstance(r, str) and r else r)
        if k == 'eq_foreign':
            return ('ret', (a == 5, a != 5))
        if k == 'popkeys_scalar':
            return ('ret', a.popkeys(*op[1:]))
    except KeyError as e:
        return ('exc', 'KeyError', e)
    except BaseException as e:
        if isinstance(e, (KeyboardInterrupt, SystemExit, MemoryError)):
            raise
        return ('exc', type(e).__name__, e)
    raise ValueError(op)


def same_value(x, y):
    if type(x) is not type(y):
        return False
    if isinstance(x, Unencodable):
        return True
    if isinstance(x, (list, tuple)):
        return len(x) == len(y) and all(same_value(p, q) for p, q in zip(x, y))
    if isinstance(x, dict):
        return set(x.keys()) == set(y.keys()) and all(same_value(v, y[k]) for k, v in x.items())
    return x == y


def contents(a):
    """dict(a.items()) -- or the exception it raises"""
    try:
        return dict(a.items())
    except BaseException as e:
        if isinstance(e, (KeyboardInterrupt, SystemExit, MemoryError)):
            raise
        return e


def describe(x):
    try:
        return repr(x)
    except Exception:
        return '<%s>' % type(x).__name__


def compare_contents(c, m, what):
    """list of problems between implementation contents c (dict or exception) and model m"""
    if isinstance(c, BaseException):
        return ['%s: reading the contents raised %s: %s' % (what, type(c).__name__, c)]
    out = []
    mk = {(type(k).__name__, describe(k)) for k in m}
    ck = {(type(k).__name__, describe(k)) for k in c}
    if mk != ck:
        out.append('%s: keys %s, dict model %s' % (what, sorted(ck), sorted(mk)))
        return out
    for k, v in m.items():
        if not same_value(c[k], v):
            out.append('%s: value for %s is %s, dict model %s' % (what, describe(k), describe(c[k]), describe(v)))
    return out
