"""E5 callmc: exhaustive enumeration of (signature x call form x configuration).

Programs are generated from a grammar of Python signatures; every generated
function returns a canonical tuple of what Python bound to its parameters, so
"Python binds these two calls identically" is decided by the interpreter itself
(and cross-checked against inspect.signature().bind).
"""
import functools
import inspect
import itertools

POS_NAMES = ('a', 'b', 'c')


class Sig(object):
    """one generated signature"""
    def __init__(self, npos, ndef, varargs, kwonly, varkw, method=False, names=None):
        self.npos, self.ndef, self.varargs, self.kwonly, self.varkw = npos, ndef, varargs, kwonly, varkw
        self.method = method
        self.pos = tuple(names or POS_NAMES)[:npos]
        params = []
        if method:
            params.append('self')
        for i, n in enumerate(self.pos):
            params.append(n if i < npos - ndef else '%s=1' % n)
        if varargs:
            params.append('*args')
        elif kwonly:
            params.append('*')
        self.kwonly_names = ()
        if kwonly == 'req':
            params.append('k')
            self.kwonly_names = ('k',)
        elif kwonly == 'def':
            params.append('k=1')
            self.kwonly_names = ('k',)
        elif kwonly == 'two':
            params.append('k')
            params.append('m=1')
            self.kwonly_names = ('k', 'm')
        if varkw:
            params.append('**kw')
        self.params = ', '.join(params)
        items = ["('%s', %s)" % (n, n) for n in self.pos + self.kwonly_names]
        if method:
            items.insert(0, "('self', 'SELF')")
        if varargs:
            items.append("('*', args)")
        if varkw:
            items.append("('**', tuple(sorted(kw.items())))")
        self.src = 'def f(%s):\n    CALLS[0] += 1\n    return (%s)\n' % (self.params, ', '.join(items) + (',' if items else ''))
        self.text = 'def f(%s)' % self.params

    def compile(self):
        # generated functions look like real ones: they have a module, and (like lambdas, closures from one factory or
        # redefinitions in real code) they all share one (module, qualified name) -- a per-name memo inside klepto
        # would be shared between them
        ns = {'CALLS': [0], '__name__': 'vfw_generated'}
        exec(compile(self.src, '<sig %s>' % self.params, 'exec'), ns)
        f = ns['f']
        f.CALLS = ns['CALLS']
        return f

    def __repr__(self):
        return self.text


def signatures(maxpos=2, kwonly_opts=(None, 'req', 'def'), method=False):
    out = []
    for npos in range(maxpos + 1):
        for ndef in range(npos + 1):
            for varargs in (False, True):
                for kwonly in kwonly_opts:
                    for varkw in (False, True):
                        out.append(Sig(npos, ndef, varargs, kwonly, varkw, method))
    return out


def calls(values=(1, 2), maxpos=3, kwnames=('a', 'b', 'k', 'z'), maxkw=2, kwvalues=None):
    """all call forms: positional tuples x ordered keyword selections"""
    kwvalues = kwvalues or values
    pos = []
    for n in range(maxpos + 1):
        pos.extend(itertools.product(values, repeat=n))
    kws = []
    for n in range(maxkw + 1):
        for names in itertools.permutations(kwnames, n):
            for vals in itertools.product(kwvalues, repeat=n):
                kws.append(tuple(zip(names, vals)))
    return [(p, k) for p in pos for k in kws]


def bind_by_call(f, args, kwitems):
    """what Python binds (None when the call does not get past argument binding)"""
    try:
        return f(*args, **dict(kwitems))
    except TypeError:
        return None


def bind_by_inspect(f, args, kwitems):
    try:
        ba = inspect.signature(f).bind(*args, **dict(kwitems))
    except TypeError:
        return None
    ba.apply_defaults()
    return ba


def typed_repr(x):
    """repr that separates 1 / 1.0 / True"""
    if isinstance(x, tuple):
        return '(' + ','.join(typed_repr(v) for v in x) + ')'
    return '%s:%r' % (type(x).__name__, x)


def freeze(key):
    """hashable stand-in with the same equality as the key (dicts are unordered)"""
    try:
        hash(key)
        return key
    except TypeError:
        pass
    if isinstance(key, dict):
        return ('__dict__', frozenset((freeze(k), freeze(v)) for k, v in key.items()))
    if isinstance(key, (tuple, list)):
        return (type(key).__name__,) + tuple(freeze(v) for v in key)
    if isinstance(key, set):
        return ('__set__', frozenset(freeze(v) for v in key))
    return ('__repr__', repr(key))


def keymaps(tier, typed=False):
    """(name, factory, information_preserving) triples"""
    import klepto.keymaps as km
    S = km.SENTINEL
    out = [
        ('keymap()', lambda: km.keymap(), True),
        ('keymap(flat=False)', lambda: km.keymap(flat=False), True),
        ('keymap(sentinel)', lambda: km.keymap(sentinel=S), True),
        ('hashmap()', lambda: km.hashmap(), False),
        ("hashmap(md5)", lambda: km.hashmap(algorithm='md5'), True),
        ("hashmap(md5,sentinel)", lambda: km.hashmap(algorithm='md5', sentinel=S), True),
        ("hashmap(md5,flat=False)", lambda: km.hashmap(algorithm='md5', flat=False), True),
        ('stringmap()', lambda: km.stringmap(), True),
        ('stringmap(flat=False)', lambda: km.stringmap(flat=False), True),
        ("picklemap(pickle)", lambda: km.picklemap(serializer='pickle'), True),
        ("picklemap(pickle,flat=False)", lambda: km.picklemap(serializer='pickle', flat=False), True),
        # a chained keymap (inner map, then outer map) and string keymaps with a named codec
        ("stringmap(flat=False)+hashmap(sha1,flat=False)", lambda: km.stringmap(flat=False) + km.hashmap(algorithm='sha1', flat=False), True),
        ("stringmap(latin-1,flat=False)", lambda: km.stringmap(encoding='latin-1', flat=False), True),
    ]
    if tier == 'thorough':
        out += [
            ('picklemap()', lambda: km.picklemap(), True),
            ('picklemap(flat=False)', lambda: km.picklemap(flat=False), True),
            ("picklemap(dill)", lambda: km.picklemap(serializer='dill'), True),
            ("picklemap(dill,flat=False)", lambda: km.picklemap(serializer='dill', flat=False), True),
            ("hashmap(sha1,sentinel)", lambda: km.hashmap(algorithm='sha1', sentinel=S), True),
            ("stringmap(sentinel)", lambda: km.stringmap(sentinel=S), True),
            ("stringmap(utf-8)", lambda: km.stringmap(encoding='utf-8'), True),
            ("picklemap(pickle)+hashmap(md5)", lambda: km.picklemap(serializer='pickle') + km.hashmap(algorithm='md5'), True),
            ("stringmap(ascii)", lambda: km.stringmap(encoding='ascii'), True),
            ("stringmap(cp437,flat=False)", lambda: km.stringmap(encoding='cp437', flat=False), True),
        ]
    if typed:
        out = [
            ('keymap(typed)', lambda: km.keymap(typed=True), True),
            ('keymap(typed,flat=False)', lambda: km.keymap(typed=True, flat=False), True),
            ('keymap(typed,sentinel)', lambda: km.keymap(typed=True, sentinel=S), True),
            ('stringmap(typed)', lambda: km.stringmap(typed=True), True),
            ('stringmap(typed,flat=False)', lambda: km.stringmap(typed=True, flat=False), True),
            ("hashmap(md5,typed)", lambda: km.hashmap(algorithm='md5', typed=True), True),
            ("picklemap(pickle,typed)", lambda: km.picklemap(serializer='pickle', typed=True), True),
            ("picklemap(pickle,typed,flat=False)", lambda: km.picklemap(serializer='pickle', typed=True, flat=False), True),
        ]
    return out


class Holder(object):
    """instance whose methods are generated functions (subclassed per form; pickles as the base)"""
    def __repr__(self):
        return '<Holder>'

    def __reduce__(self):
        return (Holder, ())


_holders = [0]


def holder_class(attrs):
    """per-form subclass of Holder, registered in this module so that pickling its type works"""
    import sys
    _holders[0] += 1
    name = 'Holder_%d' % _holders[0]
    cls = type(name, (Holder,), dict(attrs))
    cls.__module__ = __name__
    cls.__qualname__ = name
    setattr(sys.modules[__name__], name, cls)
    return cls


def forms(sig_plain, sig_method):
    """callables derived from one signature: (form name, callable to decorate,
    prefix args for every call, reference callable for binding, ignore-self?)"""
    out = []
    f = sig_plain.compile()
    out.append(('function', f, (), f, None))
    return out


def partial_forms(sig):
    """functools.partial forms of a signature: fix a positional prefix / a keyword"""
    out = []
    if sig.npos >= 1:
        f = sig.compile()
        out.append(('partial(f, 1)', functools.partial(f, 1), f))
    if sig.npos >= 2:
        f = sig.compile()
        out.append(('partial(f, b=2)', functools.partial(f, **{sig.pos[1]: 2}), f))
    if sig.varkw:
        f = sig.compile()
        out.append(('partial(f, z=2)', functools.partial(f, z=2), f))
    if sig.kwonly_names:
        f = sig.compile()
        out.append(('partial(f, k=2)', functools.partial(f, k=2), f))
    return out
