"""E1 cachemc: the decorated function as a state machine.

Explicit-state BFS (product of implementation state and monitor model state,
deduplicated) and stateless DFS over event sequences applied to the *real*
klepto decorators, caches and archives.  RR's random.choice is resolved by an
exhaustive chooser.  See DESIGN.md section 2.
"""
import collections
import copy
import os
import random as _random
import sys
import time

from ..core import pool

import warnings
# klepto warns once per read that a compressed file is not memory-mapped (compression + memmode configurations)
warnings.filterwarnings('ignore', message='.*appears to be a zip.*')

# --------------------------------------------------------------------------
# the function under memoisation


class Boom(Exception):
    pass


class BoomKey(KeyError):
    pass


class BoomType(TypeError):
    pass


EXC = {'Boom': Boom, 'KeyError': BoomKey, 'TypeError': BoomType}


class HashRaises(object):
    def __hash__(self):
        raise TypeError('HashRaises: unhashable')

    def __repr__(self):
        return '<HashRaises>'


class ReprRaises(object):
    def __repr__(self):
        raise ValueError('ReprRaises: no repr')

    def __reduce_ex__(self, proto):
        raise ValueError('ReprRaises: cannot be pickled')


def _gen():
    yield 1


def unkeyables():
    """argument values that some keymap cannot turn into a usable key"""
    return [('list', [1]), ('dict', {1: 2}), ('set', {1}), ('hash-raises', HashRaises()), ('repr-raises', ReprRaises()),
            ('generator', _gen())]


FALSY = {1: None, 2: 0, 3: ''}


def expected_result(cfg, b):
    """what the undecorated function returns for binding b"""
    if cfg.get('fn') == 'var':
        return 'g(%r,%r,%r)' % b
    if cfg.get('fn') == 'pkw':
        return 'g(%r,k=%r)' % b
    x, y = b
    mode = cfg.get('result', 'str')
    if mode == 'twin':
        return 'h(%r,%r)' % (x, y)
    if mode == 'tuple':
        return ('g', x, y)
    if mode == 'falsy' and y == 0 and x in FALSY:
        return FALSY[x]
    return 'g(%r,%r)' % (x, y)


def make_function(cfg, log, ctl):
    """fresh recorder function; log and ctl are shared lists/dicts.
    cfg['fn']: 'xy' (default) g(x, y=0) | 'var' g(x, *rest, **opts);
    cfg['result']: 'str' | 'tuple' | 'falsy' (None / 0 / '' for x = 1 / 2 / 3)"""
    if cfg.get('fn') == 'rec':
        # a recursive function: evaluating g(x) calls g(x-1) *through the wrapper* (re-entrancy; fibonacci-style use)
        holder = ctl.setdefault('holder', {})

        def g(x, y=0):
            log.append((x, y))
            if ctl.get('raise') is not None:
                exc = ctl['raise']
                ctl['raised'] = exc
                raise exc
            if isinstance(x, int) and x > 1 and holder.get('w') is not None:
                ctl['nested'] = ctl.get('nested', 0) + 1
                holder['w'](x - 1, y)
            return 'g(%r,%r)' % (x, y)
        g.log = log
        g.ctl = ctl
        return g
    if cfg.get('fn') == 'pkw':
        # a functools.partial that re-binds a keyword-only parameter which has its own default
        def g0(x, *, k=3):
            log.append((x, k))
            if ctl.get('raise') is not None:
                exc = ctl['raise']
                ctl['raised'] = exc
                raise exc
            return 'g(%r,k=%r)' % (x, k)
        import functools
        g = functools.partial(g0, k=7)
    elif cfg.get('fn') == 'var':
        def g(x, *rest, **opts):
            b = (x, rest, tuple(sorted(opts.items())))
            log.append(b)
            if ctl.get('raise') is not None:
                exc = ctl['raise']
                ctl['raised'] = exc
                raise exc
            return 'g(%r,%r,%r)' % b
    else:
        ydef = cfg.get('ydefault', 0)

        def g(x, y=ydef):
            log.append((x, y))
            if ctl.get('raise') is not None:
                exc = ctl['raise']
                ctl['raised'] = exc
                raise exc
            if not isinstance(x, (int, float, str)):
                return ('u', type(x).__name__, y)
            return expected_result(cfg, (x, y))
    g.log = log
    g.ctl = ctl
    return g


# calls: index -> (args, kwargs); bindings: index -> what the function body sees
def call_table(cfg):
    n = cfg.get('nargs', 3)
    spell = cfg.get('spellings', 2)
    if cfg.get('fn') == 'pkw':
        calls = [((1,), {}), ((1,), {'k': 3}), ((2,), {}), ((2,), {'k': 5})][:max(3, n)]
        return calls + [((1,), {'k': 7})][:min(spell, 1)]
    if cfg.get('fn') == 'var':
        # one extra positional of a "fast" type, calls that differ only in the named argument, a keyword extra
        calls = [((1, 7), {}), ((2, 7), {}), ((1,), {}), ((1, 8), {'o': 1}), ((2,), {'o': 1})][:max(3, n)]
        alts = [((), {'x': 1}), ((2, 7), {})]
        return calls + alts[:min(spell, 1)]
    if cfg.get('args') == 'long':
        # long string arguments with a common head: under a string keymap their keys exceed a file name's length
        calls = [(('L' * 300 + 'a',), {}), (('L' * 300 + 'b',), {}), (('L' * 235 + 'c',), {}), ((1,), {})][:max(3, n)]
        return calls + [((), {'x': 'L' * 300 + 'a'})][:min(spell, 1)]
    if cfg.get('args') == 'float':
        # floats that need rounding under tol, positionally and by keyword
        calls = [((1.26,), {}), ((2.55,), {}), ((3,), {'y': 2.71828}), ((4.449,), {})][:n]
        alts = [((), {'x': 1.26}), ((3, 2.71828), {}), ((), {'y': 2.71828, 'x': 3})]
        return calls + alts[:spell]
    calls = []
    for x in range(1, n + 1):
        calls.append(((x,), {}))
    # alternative spellings of existing bindings (same bound arguments)
    alts = [((), {'x': 1}), ((2,), {'y': 0}), ((), {'y': 0, 'x': 1})]
    calls.extend(alts[:spell])
    return calls


def binding(call, cfg=None):
    args, kw = call
    if cfg is not None and cfg.get('fn') == 'pkw':
        return (args[0], kw.get('k', 7))
    if cfg is not None and cfg.get('fn') == 'var':
        kw = dict(kw)
        if args:
            x, rest = args[0], tuple(args[1:])
        else:
            x, rest = kw.pop('x'), ()
        return (x, rest, tuple(sorted(kw.items())))
    d = {'y': (cfg or {}).get('ydefault', 0)}
    d.update(kw)
    for n, v in zip(('x', 'y'), args):
        d[n] = v
    return (d['x'], d['y'])


# --------------------------------------------------------------------------
# configuration -> real objects

def make_keymap(name):
    import klepto.keymaps as km
    if name == 'default':
        return None
    table = {
        'hash': lambda: km.hashmap(),
        'raw': lambda: km.keymap(),
        'rawnf': lambda: km.keymap(flat=False),
        'rawtyped': lambda: km.keymap(typed=True),
        'str': lambda: km.stringmap(),
        'strnf': lambda: km.stringmap(flat=False),
        'strtyped': lambda: km.stringmap(typed=True),
        'pickle': lambda: km.picklemap(serializer='pickle'),
        'picklenf': lambda: km.picklemap(serializer='pickle', flat=False),
        'dill': lambda: km.picklemap(serializer='dill'),
        'md5': lambda: km.hashmap(algorithm='md5'),
        'md5nf': lambda: km.hashmap(algorithm='md5', flat=False),
        'sha1typed': lambda: km.hashmap(algorithm='sha1', typed=True),
        # flat keymaps with a user-chosen sentinel between positional and keyword parts
        'rawsent': lambda: km.keymap(sentinel='|'),
        'strsent': lambda: km.stringmap(sentinel=';'),
        'md5sent': lambda: km.hashmap(algorithm='md5', sentinel=0),
        'chain': lambda: km.stringmap(flat=False) + km.hashmap(algorithm='sha1'),
    }
    return table[name]()


def open_archive(kind, path, cached):
    """construct a klepto archive of the given kind at path (fresh handle)"""
    import klepto.archives as ka
    if kind == 'null':
        return ka.null_archive('n', cached=cached)
    if kind == 'dict':
        return ka.dict_archive('d', cached=cached)
    if kind.startswith('refusing'):
        # an in-memory archive that cannot store one particular value (as a json file cannot store a set, sqlite an
        # over-long integer): the write raises, all-or-nothing.  The value is set by the caller (Sys)
        a = ka.dict_archive('d', cached=cached)
        target = a.archive if cached else a
        target.__class__ = _refusing_class(type(target))
        return a
    if kind == 'file':
        return ka.file_archive(path + '.pkl', cached=cached)
    if kind == 'filejson':
        return ka.file_archive(path + '.json', cached=cached, protocol='json')
    if kind == 'filesrc':
        return ka.file_archive(path + '_s.py', cached=cached, serialized=False)
    if kind == 'filesrcbare':
        # source-text archive named without the .py suffix (klepto appends it)
        return ka.file_archive(path + '_bare', cached=cached, serialized=False)
    if kind == 'dirsrc':
        return ka.dir_archive(path + '_ds', cached=cached, serialized=False)
    if kind == 'dir':
        return ka.dir_archive(path + '_d', cached=cached)
    if kind == 'dirjson':
        return ka.dir_archive(path + '_dj', cached=cached, protocol='json')
    if kind == 'dirfast':
        return ka.dir_archive(path + '_df', cached=cached, compression=3)
    if kind == 'dirjsonfast':
        return ka.dir_archive(path + '_djf', cached=cached, protocol='json', compression=3)
    if kind == 'dirfastmm':
        return ka.dir_archive(path + '_dfm', cached=cached, compression=3, memmode='r+')
    if kind == 'sql':
        return ka.sqltable_archive('sqlite:///%s.db?table=memo' % path, cached=cached)
    if kind == 'sqlmem':
        return ka.sqltable_archive(None, cached=cached)
    raise ValueError(kind)


_REFUSING = {}


def _refusing_class(base):
    if base not in _REFUSING:
        class Refusing(base):
            refused = ()

            def __setitem__(self, key, value):
                if any(value == r and type(value) is type(r) for r in self.refused):
                    raise ValueError('this archive cannot store %r' % (value,))
                return base.__setitem__(self, key, value)

            def update(self, adict, **kwds):
                items = dict(adict, **kwds)
                for value in items.values():
                    if any(value == r and type(value) is type(r) for r in self.refused):
                        raise ValueError('this archive cannot store %r' % (value,))
                return base.update(self, items)
        Refusing.__name__ = base.__name__
        _REFUSING[base] = Refusing
    return _REFUSING[base]


PERSISTENT = ('file', 'filejson', 'filesrc', 'filesrcbare', 'dir', 'dirjson', 'dirfast', 'dirjsonfast', 'dirfastmm', 'dirsrc', 'sql')


def decorator_class(cfg):
    import klepto
    import klepto.safe
    mod = klepto.safe if cfg['module'] == 'safe' else klepto
    return getattr(mod, cfg['alg'] + '_cache')


class Chooser(object):
    """replacement for random.choice: follows a script, then picks index 0"""
    def __init__(self):
        self.script = []
        self.trace = []

    def reset(self, script):
        self.script = list(script)
        self.trace = []

    def __call__(self, seq):
        seq = list(seq)
        i = len(self.trace)
        idx = self.script[i] if i < len(self.script) else 0
        if idx >= len(seq):
            raise RuntimeError('chooser: replay divergence (choice %d of %d)' % (idx, len(seq)))
        self.trace.append((len(seq), idx))
        return seq[idx]


_KMAP_CACHE = {}


class Sys(object):
    """one live system: function + decorator + wrapper + cache + archive"""

    def __init__(self, cfg):
        self.cfg = cfg
        self.log = []
        self.ctl = {}
        self.calls = call_table(cfg)
        self.bindings = [binding(c, cfg) for c in self.calls]
        self.scratch = None
        self.chooser = Chooser()
        self.orig = None            # original wrapper kept after a reclone
        self.orig_snap = None
        self.build_error = None
        b = cfg['backend']
        self.direct = b.startswith('direct:')
        self.kind = b.split(':')[-1]
        if self.kind in PERSISTENT:
            self.scratch = pool.fresh_dir('c')
        self.path = os.path.join(self.scratch, 'arch') if self.scratch else 'arch'
        self.fn = make_function(cfg, self.log, self.ctl)
        self.cacheobj = self._make_cache(first=True)
        self.twin = None
        if not cfg.get('twin'):
            self.wrapper = self._decorate(self.fn, self.cacheobj)
        else:
            # a second function of the same shape -- made by the same factory, so it shares the code object but has a
            # different default (y=7) -- with its own evaluation log.  Three arrangements:
            #   True               a second decorator of the same class, constructed and applied after the first
            #   'constructed-first' both decorator objects are constructed (with different maxsize) before either is applied
            #   'same-decorator'   the very same decorator object applied to both functions (memo = lru_cache(); @memo f; @memo g)
            self.tlog = []
            self.tcfg = dict(cfg, result='twin', ydefault=7)
            self.tfn = make_function(self.tcfg, self.tlog, {})
            self.tbindings = [binding(c, self.tcfg) for c in self.calls]
            b = cfg['backend']
            tcache = None if b == 'none' else {} if b == 'plaindict' else \
                open_archive('sqlmem', 'twin', cached=True) if b == 'sqlmem' else open_archive('dict', 'twin', cached=True)
            mode = cfg['twin']
            if mode == 'same-decorator':
                self.wrapper = self._decorate(self.fn, self.cacheobj)
                self.twin = self.decorator(self.tfn)
            elif mode == 'constructed-first':
                dec1 = self._construct(self.cacheobj)
                ms = cfg.get('maxsize')
                dec2 = self._construct(tcache, maxsize=(ms + 3) if isinstance(ms, int) and ms > 0 else ms)
                self.decorator = dec1
                self.wrapper = dec1(self.fn)
                self.twin = dec2(self.tfn)
            else:
                self.wrapper = self._decorate(self.fn, self.cacheobj)
                keep = self.decorator
                self.twin = self._decorate(self.tfn, tcache)
                self.decorator = keep
        if cfg.get('fn') == 'rec':
            self.ctl.setdefault('holder', {})['w'] = self.wrapper
        # keys of the call table: computed once per configuration (a fresh system is built for every transition);
        # C18 separately checks at every state that key() still returns them
        ck = repr(sorted(cfg.items(), key=lambda kv: kv[0]))
        if ck not in _KMAP_CACHE:
            _KMAP_CACHE[ck] = self._keys()
        self.kmap = _KMAP_CACHE[ck]
        if self.kind.startswith('refusing'):
            # the archive cannot store the result of the call with table index 1
            arch = self.wrapper.__cache__().archive
            arch.refused = (expected_result(cfg, self.bindings[1]),)
        init = cfg.get('init', 'empty')
        if init in ('seeded_archive', 'seeded_archive_partial'):
            arch = self.wrapper.__cache__().archive
            for s, b in enumerate(self.bindings):
                if init == 'seeded_archive_partial' and s == len(self.bindings) - 1:
                    continue        # (the last call of the table is new to the archive)
                arch[self.kmap[s]] = expected_result(cfg, b)
        elif init == 'seeded_cache':
            c = self.wrapper.__cache__()
            for s, b in enumerate(self.bindings):
                c[self.kmap[s]] = expected_result(cfg, b)

    # -- construction helpers
    def _make_cache(self, first):
        b = self.cfg['backend']
        if b == 'none':
            return None
        if b == 'plaindict':
            return {}
        if self.direct:
            return open_archive(self.kind, self.path, cached=False)
        return open_archive(self.kind, self.path, cached=True)

    def _decorate(self, fn, cacheobj):
        return self._construct(cacheobj)(fn)

    def _construct(self, cacheobj, maxsize='cfg'):
        cfg = self.cfg
        if maxsize != 'cfg':
            cfg = dict(cfg, maxsize=maxsize)
        cls = decorator_class(cfg)
        kw = {}
        if cacheobj is not None:
            kw['cache'] = cacheobj
        km = make_keymap(cfg.get('keymap', 'default'))
        if km is not None:
            kw['keymap'] = km
        if cfg.get('ignore') is not None:
            kw['ignore'] = cfg['ignore']
        if cfg.get('tol') is not None:
            kw['tol'] = cfg['tol']
        if cfg.get('deep'):
            kw['deep'] = True
        if cfg['alg'] not in ('no', 'inf'):
            kw['purge'] = bool(cfg.get('purge', False))
        if cfg['alg'] in ('no', 'inf'):
            dec = cls(**kw)
        elif cfg.get('maxsize_pos'):
            dec = cls(cfg['maxsize'], **kw)
        else:
            dec = cls(maxsize=cfg['maxsize'], **kw)
        via = cfg.get('deco_via')
        if via == 'copy':
            # the decorator object rebuilt from itself (its __reduce__) before it is applied: same configuration
            dec = copy.copy(dec)
        elif via == 'pickle':
            import dill
            dec = dill.loads(dill.dumps(dec))
        self.decorator = dec
        return dec

    def _keys(self):
        return [self.wrapper.key(*a, **k) for (a, k) in self.calls]

    # -- observation
    def cache(self):
        return self.wrapper.__cache__()

    def close(self):
        if self.scratch:
            try:
                c = self.wrapper.__cache__()
                a = getattr(c, 'archive', c)
                conn = getattr(a, '_conn', None)
                if conn is not None:
                    conn.close()
            except Exception:
                pass
            pool.rm(self.scratch)
            self.scratch = None


def _valrepr(v):
    return v


def archive_items(a):
    """contents of an archive as a dict (None for the null archive)"""
    if type(a).__name__ == 'null_archive':
        return None
    return dict(a.__asdict__())


def canon_obj(o, depth=0):
    """generic canonical form of a closure-cell value"""
    if o is None or isinstance(o, (bool, int, float, str, bytes)):
        return o
    if isinstance(o, (tuple, list)):
        return (type(o).__name__,) + tuple(canon_obj(v, depth + 1) for v in o)
    if isinstance(o, collections.deque):
        return ('deque',) + tuple(canon_obj(v, depth + 1) for v in o)
    if isinstance(o, (set, frozenset)):
        return ('set',) + tuple(sorted((sr(canon_obj(v, depth + 1)) for v in o)))
    if isinstance(o, dict):
        if type(o).__name__ == 'cache' or hasattr(o, '__asdict__'):
            return ('CACHE',)
        return (type(o).__name__,) + tuple((canon_obj(k, depth + 1), canon_obj(v, depth + 1))
                                           for k, v in o.items())
    if type(o) is object:
        return ('SENTINEL',)
    if callable(o) and hasattr(o, '__name__'):
        return ('fn', getattr(o, '__qualname__', o.__name__))
    mod = type(o).__module__ or ''
    if mod.startswith('klepto'):
        # configuration objects (keymaps, rounding helpers): their repr *and* their attributes -- a rounding helper's
        # tolerance, for instance, is not in its repr
        try:
            r = repr(o)
        except Exception:
            r = None
        attrs = ()
        d = getattr(o, '__dict__', None)
        if isinstance(d, dict) and depth < 3:
            attrs = tuple((str(k), canon_obj(v, depth + 1)) for k, v in sorted(d.items(), key=lambda kv: str(kv[0])))
        return ('klepto', type(o).__name__, r, attrs)
    return ('obj', type(o).__name__)


Snapshot = collections.namedtuple(
    'Snapshot', 'mem arch swap archived cells stats info loglen')


def store_items(S):
    """contents of a persistent archive as *another connection* sees them (fresh handle, closed again): what has
    really reached the store, as opposed to what the writing handle believes (an uncommitted sqlite transaction, a
    buffered file)"""
    h = open_archive(S.kind, S.path, cached=False)
    try:
        return dict(h.__asdict__())
    finally:
        conn = getattr(h, '_conn', None)
        if conn is not None:
            conn.close()


def snapshot(wrapper, log, S=None):
    c = wrapper.__cache__()
    mem = dict(c.items()) if type(c).__name__ != 'cache' else dict(dict.items(c))
    memorder = tuple(mem.keys())
    if type(c).__name__ == 'cache':
        arch = archive_items(c.archive)
        if S is not None and S.kind in PERSISTENT and not S.direct and arch is not None and type(c.archive).__name__ != 'dict_archive':
            arch = store_items(S)
        swap = archive_items(c.__swap__)
        archived = bool(c.archived())
    else:
        arch, swap, archived = None, None, False
    cells = []
    stats = None
    code = wrapper.__code__
    for name, cell in zip(code.co_freevars, wrapper.__closure__ or ()):
        try:
            v = cell.cell_contents
        except ValueError:
            cells.append((name, 'EMPTY'))
            continue
        if name == 'stats':
            stats = tuple(v)
            continue
        if name == 'user_function':
            cells.append((name, 'g'))
            continue
        cells.append((name, canon_obj(v)))
    try:
        info = tuple(wrapper.info())
    except Exception as e:      # uninitialised decorator etc.
        info = ('ERR', type(e).__name__)
    return Snapshot(mem=mem, arch=arch, swap=swap, archived=archived,
                    cells=(memorder, tuple(cells)), stats=stats, info=info, loglen=len(log))


def sr(x):
    """repr that never raises (arguments under test may have a hostile __repr__)"""
    try:
        return repr(x)
    except BaseException:
        if isinstance(x, (tuple, list)):
            return '(' + ','.join(sr(y) for y in x) + ')'
        if isinstance(x, dict):
            return '{' + ','.join('%s:%s' % (sr(k), sr(v)) for k, v in x.items()) + '}'
        return '<%s instance>' % type(x).__name__


def _frz(d):
    if d is None:
        return None
    return tuple(sorted(((sr(k), sr(v)) for k, v in d.items())))


def snap_key(s):
    """hashable state key.  The statistics are unbounded write-only counters and stay out of it (DESIGN 2) -- except for
    their zero / non-zero pattern: a transition such as clear() can only be judged in a state whose counters are not
    all zero, and that state must not be merged with the pristine one"""
    nz = tuple(bool(x) for x in (s.stats or ()))
    return (tuple((sr(k), sr(v)) for k, v in s.mem.items()), _frz(s.arch), _frz(s.swap),
            s.archived, sr(s.cells), nz)


def snap_full(s):
    return snap_key(s) + (s.stats, s.info)


# --------------------------------------------------------------------------
# events

class Transition(object):
    __slots__ = ('ev', 's', 'call', 'binding', 'key', 'pre', 'post', 'obs', 'exc', 'ret',
                 'logdelta', 'choices', 'raised', 'incoherent', 'extra', 'hist')


def apply_event(S, ev, script=(), light=False, pre=None):
    """apply one event to the live system; returns a Transition (without monitors).
    light=True (used when a history prefix is re-played only to reach a state): no snapshots are taken"""
    tr = Transition()
    tr.ev = ev
    tr.extra = {}
    kind = ev[0]
    s = ev[1] if len(ev) > 1 and kind in ('call', 'raise', 'dumpk', 'loadk', 'lookup', 'key', 'callx') else None
    tr.s = s
    tr.call = S.calls[s] if s is not None else None
    tr.binding = S.bindings[s] if s is not None else None
    tr.key = S.kmap[s] if s is not None else None
    w = S.wrapper
    tr.pre = None if light else (pre if pre is not None else snapshot(w, S.log, S))
    n0 = len(S.log)
    S.chooser.reset(script)
    saved = _random.choice
    _random.choice = S.chooser
    tr.exc = None
    tr.ret = None
    tr.raised = None
    S.ctl.pop('raise', None)
    S.ctl.pop('raised', None)
    S.ctl['nested'] = 0
    try:
        try:
            if kind == 'call':
                a, k = tr.call
                tr.ret = w(*a, **k)
            elif kind == 'raise':
                a, k = tr.call
                exc = EXC[ev[2]]('boom %r' % (tr.binding,))
                S.ctl['raise'] = exc
                tr.raised = exc
                tr.ret = w(*a, **k)
            elif kind in ('tcall', 'tlookup'):
                a, k = S.calls[ev[1]]
                tr.extra['twin_expected'] = expected_result(S.tcfg, S.tbindings[ev[1]])
                tc = S.twin.__cache__()
                tmem = dict(tc.items()) if type(tc).__name__ != 'cache' else dict(dict.items(tc))
                tr.extra['twin_mem_pre'] = tmem
                try:
                    tr.extra['twin_key'] = S.twin.key(*a, **k)
                except BaseException as e:
                    tr.extra['twin_key'] = ('KEY-RAISED', type(e).__name__)
                n0t = len(S.tlog)
                try:
                    tr.ret = S.twin(*a, **k) if kind == 'tcall' else S.twin.lookup(*a, **k)
                finally:
                    tr.extra['twin_evals'] = len(S.tlog) - n0t
                    tc = S.twin.__cache__()
                    tr.extra['twin_mem_post'] = dict(tc.items()) if type(tc).__name__ != 'cache' else dict(dict.items(tc))
                    try:
                        tr.extra['twin_info'] = tuple(S.twin.info())
                    except BaseException as e:
                        tr.extra['twin_info'] = ('ERR', type(e).__name__)
            elif kind in ('callu', 'raiseu'):
                name, val = unkeyables()[ev[1]]
                if kind == 'raiseu':
                    # an argument the keymap cannot key *and* a function that raises
                    exc = Boom('boom unkeyable %s' % name)
                    S.ctl['raise'] = exc
                    tr.raised = exc
                tr.extra['value_kind'] = name
                tr.extra['value'] = val
                try:
                    k = w.key(val)
                    hash(k)
                    tr.extra['keyable'] = True
                except BaseException:
                    tr.extra['keyable'] = False
                tr.ret = w(val)
            elif kind == 'dump':
                tr.ret = w.dump()
            elif kind == 'load':
                tr.ret = w.load()
            elif kind == 'dumpk':
                tr.ret = w.dump(tr.key)
            elif kind == 'dumpks':
                # several keys in one call, in the given order (some of them usually not resident)
                tr.ret = w.dump(*[S.kmap[i] for i in ev[1:] if i < len(S.kmap)])
            elif kind == 'loadks':
                tr.ret = w.load(*[S.kmap[i] for i in ev[1:] if i < len(S.kmap)])
            elif kind == 'loadk':
                tr.ret = w.load(tr.key)
            elif kind == 'clear':
                tr.ret = w.clear()
            elif kind == 'clearks':
                tr.ret = w.clear(keepstats=True)
            elif kind == 'arch':
                tr.ret = w.archived(ev[1])
            elif kind == 'aclear':
                # the owner empties the attached archive directly (not through the wrapper)
                tr.ret = w.__cache__().archive.clear()
            elif kind == 'newarch':
                # wrapper.archive(obj): replace the cache's archive by a fresh, empty in-memory archive
                import klepto.archives as ka
                tr.ret = w.archive(ka.dict_archive('replacement', cached=False))
            elif kind == 'newarchc':
                # ... the same with a cache-fronted archive object (klepto.archives.X(name), cached=True is the default):
                # the wrapper must attach the archive behind it
                import klepto.archives as ka
                tr.ret = w.archive(ka.dict_archive('replacement2', cached=True))
            elif kind == 'lookup':
                a, k = tr.call
                tr.ret = w.lookup(*a, **k)
            elif kind == 'key':
                a, k = tr.call
                tr.ret = w.key(*a, **k)
            elif kind == 'info':
                tr.ret = tuple(w.info())
            elif kind == 'redec':
                _redecorate(S)
            elif kind == 'redecs':
                # a second decorator over the *same cache object* (cache=f.__cache__()): memory, with whatever it holds that
                # is not archived yet, is shared; function object, bookkeeping and statistics are new
                _redecorate(S, share=True)
            elif kind == 'reclone':
                _reclone(S)
            else:
                raise ValueError('unknown event %r' % (ev,))
        except BaseException as e:
            if isinstance(e, (KeyboardInterrupt, SystemExit, MemoryError)):
                raise
            tr.exc = e
    finally:
        _random.choice = saved
        S.ctl.pop('raise', None)
    tr.choices = list(S.chooser.trace)
    tr.extra['nested'] = S.ctl.get('nested', 0)      # calls made through the wrapper while this call was being evaluated
    if light:
        return tr
    tr.logdelta = S.log[n0:]
    tr.post = snapshot(S.wrapper, S.log, S)
    if tr.exc is not None:
        tr.obs = ('exc', type(tr.exc).__name__, str(tr.exc)[:80])
    else:
        tr.obs = ('ret', sr(tr.ret))
    # key coherence: an evaluating call that stores something new stores it under key()
    tr.incoherent = None
    if kind == 'call' and tr.exc is None and tr.logdelta:
        pre_keys = set(tr.pre.mem) | set(tr.pre.arch or ()) | set(tr.pre.swap or ())
        post_keys = set(tr.post.mem) | set(tr.post.arch or ()) | set(tr.post.swap or ())
        new = post_keys - pre_keys
        if new and new != {tr.key}:
            tr.incoherent = 'call stored under %r but key() says %r' % (sorted(map(repr, new)), tr.key)
    return tr


def _redecorate(S, share=False):
    """fresh function object + fresh decorator + fresh cache on the same archive"""
    import klepto.archives as ka
    old = S.wrapper.__cache__()
    kind = S.kind
    if S.cfg['backend'] in ('none', 'plaindict'):
        raise ValueError('redecorate needs an archive')
    if share:
        cacheobj = old
    elif S.direct:
        cacheobj = open_archive(kind, S.path, cached=False) if kind in PERSISTENT else old
    elif kind in PERSISTENT:
        cacheobj = open_archive(kind, S.path, cached=True)
    else:
        arch = old.archive if old.archived() else old.__swap__
        cacheobj = ka.cache(archive=arch)
    S.fn = make_function(S.cfg, S.log, S.ctl)
    S.cacheobj = cacheobj
    S.wrapper = S._decorate(S.fn, cacheobj)
    if S.cfg.get('fn') == 'rec':
        S.ctl.setdefault('holder', {})['w'] = S.wrapper
    S.orig = None
    S.orig_snap = None
    kmap = S._keys()
    if kmap != S.kmap:
        raise AssertionError('keys changed after re-decoration: %r -> %r' % (S.kmap, kmap))


def _reclone(S):
    import dill
    S.orig = S.wrapper
    clone = dill.loads(dill.dumps(S.wrapper))
    S.wrapper = clone
    g = clone.__wrapped__
    # the clone carries its own evaluation log / control dict
    S.log = g.log
    S.ctl = g.ctl
    S.fn = g
    S.orig_snap = snapshot(S.orig, S.orig.__wrapped__.log)
    kmap = S._keys()
    if kmap != S.kmap:
        raise AssertionError('keys changed after pickling: %r -> %r' % (S.kmap, kmap))


def replay(cfg, hist):
    """fresh system with the history (list of (event, script)) applied"""
    S = Sys(cfg)
    for ev, script in hist:
        if ev[0] == 'callx':
            for _ in range(ev[2]):
                apply_event(S, ('call', ev[1]), script, light=True)
        elif ev[0] == 'callseq':
            for i in range(ev[1], ev[1] + ev[2]):
                apply_event(S, ('call', i), script, light=True)
        else:
            apply_event(S, ev, script, light=True)
    return S


# --------------------------------------------------------------------------
# exploration

class Result(object):
    def __init__(self, cfg):
        self.cfg = cfg
        self.counts = collections.Counter()
        self.samples = []
        self.caps = []
        self.violations = []
        self.nontrivial = set()
        self.outcomes = set()

    def as_dict(self):
        return {'config': self.cfg, 'counts': dict(self.counts), 'samples': self.samples,
                'caps': self.caps, 'violations': self.violations,
                'nontrivial': len(self.nontrivial), 'outcomes': sorted(self.outcomes)[:50]}


def cfg_name(cfg):
    keys = ('module', 'alg', 'maxsize', 'maxsize_pos', 'purge', 'keymap', 'backend', 'init',
            'ignore', 'tol', 'deep', 'result', 'fn', 'args', 'nargs', 'narrow', 'twin', 'scale', 'longuse', 'deco_via', 'hits_only')
    return ' '.join('%s=%s' % (k, cfg[k]) for k in keys if k in cfg and cfg[k] not in (None, False))


def hist_repr(hist):
    return [list(ev) + (['choices', list(sc)] if sc else []) for ev, sc in hist]


def _violation(res, prop, cfg, hist, ev, script, sig, detail):
    sig = dict(sig)
    sig.setdefault('engine', 'cachemc')
    res.violations.append({
        'sig': sig,
        'detail': '%s | config: %s | history: %s' % (detail, cfg_name(cfg), hist_repr(hist + [(ev, script)])),
        'replay': {'engine': 'cachemc', 'property': prop, 'config': cfg,
                   'history': hist_repr(hist), 'event': list(ev), 'script': list(script)},
    })


def step_with_monitors(S, ev, script, monitors, quiet=False):
    """apply event (macro events expanded) and feed every elementary transition
    to the monitors; returns (last transition, list of (sig, detail))"""
    found = []
    trs = []
    if ev[0] == 'callx':
        for _ in range(ev[2]):
            # nothing happens between the elementary calls of a macro event: the previous post-state is the pre-state
            trs.append(apply_event(S, ('call', ev[1]), script, pre=trs[-1].post if trs else None))
    elif ev[0] == 'callseq':
        for i in range(ev[1], ev[1] + ev[2]):
            trs.append(apply_event(S, ('call', i), script, pre=trs[-1].post if trs else None))
    else:
        trs.append(apply_event(S, ev, script))
    for tr in trs:
        for m in monitors:
            out = m.step(S, tr)
            if out and not quiet:
                found.extend(out)
    return trs[-1], found


def explore_bfs(cfg, events, make_monitors, prop, max_depth=6, max_states=20000,
                time_budget=None, continuation_check=None):
    """explicit-state BFS over the product (implementation state x monitor state)."""
    res = Result(cfg)
    t0 = time.time()
    try:
        S0 = Sys(cfg)
    except BaseException as e:
        _violation(res, prop, cfg, [], ('build',), (),
                   {'step': 'build', 'exc': type(e).__name__, 'cfgclass': cfg_class(cfg)},
                   'constructing the decorated function raised %s: %s' % (type(e).__name__, e))
        return res.as_dict()
    mons0 = make_monitors(cfg)
    for m in mons0:
        out = m.start(S0)
        for sig, detail in out or ():
            _violation(res, prop, cfg, [], ('init',), (), sig, detail)
    s0 = snapshot(S0.wrapper, S0.log)
    S0.close()
    key0 = (snap_key(s0), tuple(m.state_key() for m in mons0))
    seen = {key0}
    frontier = collections.deque([([], mons0, 0)])
    res.counts['states'] = 1
    capped_depth = False
    evs = [e for e in events if event_enabled(cfg, e)]
    while frontier:
        hist, mons, depth = frontier.popleft()
        if depth >= max_depth:
            capped_depth = True
            continue
        if time_budget and time.time() - t0 > time_budget:
            res.caps.append('time budget %ss hit in %s' % (time_budget, cfg_name(cfg)))
            break
        for ev in evs:
            scripts = [()]
            while scripts:
                script = scripts.pop()
                S = replay(cfg, hist)
                ms = copy.deepcopy(mons)
                try:
                    tr, found = step_with_monitors(S, ev, script, ms)
                except RuntimeError as e:
                    S.close()
                    raise
                # chooser alternatives (first deviation beyond the given script)
                for i in range(len(script), len(tr.choices)):
                    n, _ = tr.choices[i]
                    base = [c for (_, c) in tr.choices[:i]]
                    for alt in range(1, n):
                        scripts.append(tuple(base + [alt]))
                res.counts['transitions'] += 1
                res.counts['evaluations'] += 1
                res.outcomes.add(repr(tr.obs)[:60])
                nt = [m.nontrivial(S, tr) for m in ms]
                if any(nt):
                    res.nontrivial.add((snap_key(tr.pre), ev, script))
                if len(res.samples) < 3 and any(nt):
                    res.samples.append({'config': cfg_name(cfg), 'history': hist_repr(hist + [(ev, script)]),
                                        'observation': list(tr.obs)})
                if found:
                    for sig, detail in found:
                        _violation(res, prop, cfg, hist, ev, script, sig, detail)
                    res.counts['pruned_after_finding'] += 1
                    S.close()
                    continue
                if continuation_check is not None:
                    for sig, detail in continuation_check(cfg, hist, ev, script, S, tr, evs) or ():
                        _violation(res, prop, cfg, hist, ev, script, sig, detail)
                k = (snap_key(tr.post), tuple(m.state_key() for m in ms))
                S.close()
                if k not in seen:
                    if len(seen) >= max_states:
                        if 'state cap' not in ' '.join(res.caps):
                            res.caps.append('state cap %d hit in %s' % (max_states, cfg_name(cfg)))
                        continue
                    seen.add(k)
                    res.counts['states'] += 1
                    frontier.append((hist + [(ev, script)], ms, depth + 1))
    if capped_depth:
        res.caps.append('depth cap %d (no closure) in %s' % (max_depth, cfg_name(cfg)))
    else:
        if not res.caps:
            res.counts['configs_closed'] += 1
    return res.as_dict()


def explore_dfs(cfg, events, make_monitors, prop, depth=4):
    """stateless DFS: every event sequence of the given length, no state hashing."""
    res = Result(cfg)
    evs = [e for e in events if event_enabled(cfg, e)]

    def rec(hist, d):
        if d == 0:
            return
        for ev in evs:
            scripts = [()]
            while scripts:
                script = scripts.pop()
                try:
                    S = Sys(cfg)
                except BaseException:
                    return
                ms = make_monitors(cfg)
                for m in ms:
                    m.start(S)
                bad = False
                for e2, sc2 in hist:
                    step_with_monitors(S, e2, sc2, ms, quiet=True)
                tr, found = step_with_monitors(S, ev, script, ms)
                for i in range(len(script), len(tr.choices)):
                    n, _ = tr.choices[i]
                    base = [c for (_, c) in tr.choices[:i]]
                    for alt in range(1, n):
                        scripts.append(tuple(base + [alt]))
                res.counts['transitions'] += 1
                res.counts['evaluations'] += 1
                res.counts['dfs_executions'] += 1
                res.outcomes.add(repr(tr.obs)[:60])
                if any(m.nontrivial(S, tr) for m in ms):
                    res.nontrivial.add((snap_key(tr.pre), ev, script))
                S.close()
                if found:
                    for sig, detail in found:
                        _violation(res, prop, cfg, hist, ev, script, sig, detail)
                    res.counts['pruned_after_finding'] += 1
                    continue
                rec(hist + [(ev, script)], d - 1)
    rec([], depth)
    res.counts['states'] = max(1, res.counts['transitions'])
    return res.as_dict()


def event_enabled(cfg, ev):
    b = cfg['backend']
    has_archive = b not in ('none', 'plaindict') and not b.startswith('direct:') and b != 'null'
    if ev[0] in ('newarch', 'newarchc'):
        # attaching an archive later is also possible (and interesting) for a wrapper decorated without one
        return b in ('none', 'null', 'dict')
    if ev[0] in ('dump', 'load', 'dumpk', 'loadk', 'arch', 'dumpks', 'loadks', 'aclear') and not has_archive:
        return False
    if ev[0] in ('redec', 'redecs') and (b in ('none', 'plaindict', 'null')):
        return False
    if ev[0] == 'redecs' and (b.startswith('direct:') or b.split(':')[-1] in PERSISTENT):
        return False
    if ev[0] == 'reclone' and b.split(':')[-1] in ('sql', 'sqlmem'):
        return False
    if ev[0] in ('tcall', 'tlookup') and not cfg.get('twin'):
        return False
    if len(ev) > 1 and ev[0] in ('call', 'raise', 'dumpk', 'loadk', 'lookup', 'key', 'callx', 'tcall', 'tlookup'):
        if ev[1] >= len(call_table(cfg)):
            return False
    return True


def cfg_class(cfg):
    """coarse class of a configuration used in violation signatures"""
    return '%s.%s_cache' % ('safe' if cfg['module'] == 'safe' else 'klepto', cfg['alg'])


class Monitor(object):
    """base class: per-property oracle with (optional) reference-model state"""
    def start(self, S):
        return []

    def step(self, S, tr):
        return []

    def state_key(self):
        return None

    def nontrivial(self, S, tr):
        return False


def replay_doc(doc, make_monitors):
    """re-run a recorded violation (explorer off); returns list of findings"""
    cfg = doc['config']
    if 'ignore' in cfg and isinstance(cfg['ignore'], list):
        cfg['ignore'] = tuple(cfg['ignore'])
    hist = []
    for item in doc['history']:
        item = list(item)
        sc = ()
        if 'choices' in item:
            i = item.index('choices')
            sc = tuple(item[i + 1])
            item = item[:i]
        hist.append((tuple(item), sc))
    ev = tuple(doc['event'])
    script = tuple(doc.get('script', ()))
    if ev[0] in ('build',):
        try:
            Sys(cfg).close()
            return []
        except BaseException as e:
            return [({'step': 'build'}, repr(e))]
    S = Sys(cfg)
    ms = make_monitors(cfg)
    found = []
    for m in ms:
        found.extend(m.start(S) or [])
    for e2, sc2 in hist:
        _, f = step_with_monitors(S, e2, sc2, ms)
        found.extend(f)
    if ev[0] != 'init':
        tr, f = step_with_monitors(S, ev, script, ms)
        found.extend(f)
        print('observation:', tr.obs)
    S.close()
    return found
