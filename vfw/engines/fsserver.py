"""Server process running under the fsgate LD_PRELOAD shim.

Started by vfw.engines.fsgate.Server as
    LD_PRELOAD=build/fsgate.so python -m vfw.engines.fsserver
and driven over stdin/stdout with length-prefixed pickles.  It never touches an
archive itself: every actor, every setup step and every recovery/reader runs in
a freshly forked child (gc disabled), so that no handle, lock or cache survives
from one execution to the next.
"""
import ctypes
import gc
import os
import pickle
import select
import signal
import struct
import sys
import traceback

_lib = None


def lib():
    global _lib
    if _lib is None:
        _lib = ctypes.CDLL(None)
        _lib.fsg_config.argtypes = [ctypes.c_char_p, ctypes.c_int, ctypes.c_int, ctypes.c_int, ctypes.c_long,
                                    ctypes.c_int, ctypes.c_int]
        _lib.fsg_counter.restype = ctypes.c_long
    return _lib


# ---------------------------------------------------------------------------
# archive operations (the small language used by crashmc / schedmc)

def open_handle(backend, root, cached=False):
    from vfw.engines import archmc
    return archmc.open_backend(backend, root, 'arch', cached)


def archmc_location(backend, root, name):
    from vfw.engines import archmc
    return archmc.location(backend, root, name)


def run_op(h, op, ctx):
    """apply one operation; returns a picklable observation"""
    k = op[0]
    if k == 'set':
        v = op[2]
        if v == '<UNENCODABLE>':
            from vfw.engines import archmc
            v = archmc.UNENC         # a value no encoder can store (its __reduce__ / __repr__ raise)
        h[op[1]] = v
        return None
    if k == 'update':
        h.update(dict(op[1]))
        return None
    if k == 'del':
        del h[op[1]]
        return None
    if k == 'pop':
        return h.pop(op[1])
    if k == 'popitem':
        return h.popitem()
    if k == 'setdefault':
        return h.setdefault(op[1], op[2])
    if k == 'clear':
        h.clear()
        return None
    if k == 'popkeys':
        return h.popkeys(list(op[1]), *op[2:])
    if k == 'dumpk':
        # a cache bound to the archive with two dirty entries, then dump(key) of one of them
        import klepto.archives as ka
        c = ka.cache(archive=h)
        c.update(dict(op[1]))
        c.dump(op[2])
        return None
    if k == 'syncclear':
        # cache.sync(clear=True): the archive is emptied and refilled from the cache
        import klepto.archives as ka
        c = ka.cache(archive=h)
        c.update(dict(op[1]))
        c.sync(clear=True)
        return None
    if k == 'sync':
        import klepto.archives as ka
        c = ka.cache(archive=h)
        c.update(dict(op[1]))
        c.sync()
        return None
    if k == 'copy':
        # copy(name): writes a second archive next to this one; this one must not change
        # (a second copy goes to a second name: dir_archive.copy onto an existing directory raises, which is not C13's subject)
        n = ctx['ncopy'] = ctx.get('ncopy', 0) + 1
        loc = archmc_location(ctx['backend'], ctx['root'], 'copied' if n == 1 else 'copied%d' % n)
        h.copy(loc)
        return None
    if k == 'dump':
        # a cache bound to the archive with dirty entries, then dump()
        import klepto.archives as ka
        c = ka.cache(archive=h)
        c.update(dict(op[1]))
        c.dump()
        return None
    if k == 'open':
        # merely opening an existing archive through the public constructor
        h2 = open_handle(ctx['backend'], ctx['root'], cached=op[1])
        return None
    if k == 'get':
        return h[op[1]]
    if k == 'getd':
        return h.get(op[1], 'MISSING')
    if k == 'contains':
        return op[1] in h
    if k == 'len':
        return len(h)
    if k == 'keys':
        return sorted(h.keys(), key=repr)
    if k == 'items':
        return sorted(h.items(), key=repr)
    if k == 'asdict':
        return sorted(h.__asdict__().items(), key=repr)
    if k == 'load':
        import klepto.archives as ka
        c = ka.cache(archive=h)
        c.load()
        return sorted(dict.items(c), key=repr)
    raise ValueError(op)


def safe_op(h, op, ctx):
    try:
        return ('ret', run_op(h, op, ctx))
    except BaseException as e:
        if isinstance(e, (KeyboardInterrupt, SystemExit)):
            raise
        return ('exc', type(e).__name__, str(e)[:200])


def recovery(backend, root):
    """what a new process sees: both wrappers, every bulk read"""
    out = {}
    try:
        h = open_handle(backend, root, cached=False)
        out['open'] = ('ret', None)
    except BaseException as e:
        out['open'] = ('exc', type(e).__name__, str(e)[:200])
        return out
    ctx = {'backend': backend, 'root': root}
    out['len'] = safe_op(h, ('len',), ctx)
    out['keys'] = safe_op(h, ('keys',), ctx)
    out['asdict'] = safe_op(h, ('asdict',), ctx)
    out['items'] = safe_op(h, ('items',), ctx)
    out['load'] = safe_op(h, ('load',), ctx)
    try:
        c = open_handle(backend, root, cached=True)
        c.load()
        out['cached-open-load'] = ('ret', sorted(dict.items(c), key=repr))
    except BaseException as e:
        out['cached-open-load'] = ('exc', type(e).__name__, str(e)[:200])
    # a second look after the opens above (opening must not have damaged anything)
    try:
        h2 = open_handle(backend, root, cached=False)
        out['asdict-again'] = safe_op(h2, ('asdict',), ctx)
    except BaseException as e:
        out['asdict-again'] = ('exc', type(e).__name__, str(e)[:200])
    return out


# ---------------------------------------------------------------------------
# child management

def fork_child(fn):
    """run fn(write_result) in a forked child; returns (pid, result_read_fd)"""
    r, w = os.pipe()
    pid = os.fork()
    if pid == 0:
        try:
            os.close(r)
            gc.disable()
            try:
                res = fn()
            except BaseException as e:
                res = ('child-exc', type(e).__name__, traceback.format_exc()[-1500:])
            lib().fsg_mode(0)
            data = pickle.dumps(res)
            os.write(w, struct.pack('<I', len(data)) + data)
        finally:
            os._exit(0)
    os.close(w)
    return pid, r


def read_result(fd):
    data = b''
    while True:
        chunk = os.read(fd, 65536)
        if not chunk:
            break
        data += chunk
    os.close(fd)
    if len(data) < 4:
        return None
    n = struct.unpack('<I', data[:4])[0]
    return pickle.loads(data[4:4 + n])


def run_plain(fn):
    pid, fd = fork_child(fn)
    res = read_result(fd)
    _, status = os.waitpid(pid, 0)
    return res, status


def setup_store(spec):
    """build the prior state in a short-lived child (no shim events)"""
    backend, root, prior = spec['backend'], spec['root'], spec.get('prior', ())
    os.makedirs(root, exist_ok=True)

    def fn():
        h = open_handle(backend, root, cached=False)
        ctx = {'backend': backend, 'root': root}
        for op in prior:
            run_op(h, op, ctx)
        return 'ok'
    res, status = run_plain(fn)
    if res != 'ok':
        raise RuntimeError('setup failed: %r' % (res,))


# ---------------------------------------------------------------------------
# crash runs

def crash_run(spec):
    backend, root = spec['backend'], spec['root']
    setup_store(spec)
    blob = None
    if spec.get('handle_via') == 'pickle':
        # the handle every later process works with is restored from one pickle of a handle (a pickled cache or memoised
        # function carries its archive this way): whatever travels in the handle's state is shared by those processes
        def mk():
            import dill
            return dill.dumps(open_handle(backend, root, cached=False))
        blob, _ = run_plain(mk)
        if not isinstance(blob, bytes):
            raise RuntimeError('could not pickle a %s handle: %r' % (backend, blob))

    def get_handle():
        if blob is not None:
            import dill
            return dill.loads(blob)
        return open_handle(backend, root, cached=False)
    er, ew = os.pipe()
    mode = {'log': 1, 'kill': 2}[spec['mode']]

    def fn():
        os.close(er)
        ctx = {'backend': backend, 'root': root}
        import random
        random.seed(7)
        lib().fsg_reset_fds()
        lib().fsg_config(root.encode(), 0, -1, -1, -1, 0, 0)      # tracking of fds under root starts here
        h = None
        if spec['op'][0] != 'open' or spec.get('handle_first'):
            h = get_handle()
        for op in spec.get('pre_ops', ()):      # thorough: a first operation without faults on the same handle
            run_op(h, op, ctx)
        lib().fsg_config(root.encode(), mode, ew, -1, spec.get('kill_at', -1), spec.get('kill_short', 0), 0)
        out = safe_op(h, spec['op'], ctx)
        lib().fsg_mode(0)
        return out
    pid, rfd = fork_child(fn)
    os.close(ew)
    events = b''
    while True:
        chunk = os.read(er, 65536)
        if not chunk:
            break
        events += chunk
    os.close(er)
    res = read_result(rfd)
    _, status = os.waitpid(pid, 0)
    killed = os.WIFSIGNALED(status) and os.WTERMSIG(status) == signal.SIGKILL
    rec, _ = run_plain(lambda: recovery(backend, root))
    out = {'events': events.decode(errors='replace').splitlines(), 'killed': killed, 'result': res, 'recovery': rec}
    if spec.get('post_ops'):
        # life goes on after the crash: another process (handle obtained the same way) stores something else, without
        # faults; then a fresh process looks again
        def post():
            ctx = {'backend': backend, 'root': root}
            h = get_handle()
            return [safe_op(h, op, ctx) for op in spec['post_ops']]
        out['post_result'], _ = run_plain(post)
        out['recovery2'], _ = run_plain(lambda: recovery(backend, root))
    return out


# ---------------------------------------------------------------------------
# scheduled runs

class Actor(object):
    def __init__(self, idx, pid, report_r, go_w, result_r):
        self.idx, self.pid, self.report_r, self.go_w, self.result_r = idx, pid, report_r, go_w, result_r
        self.buf = b''
        self.done = False
        self.pending = None       # the event it is blocked on (kind, path)
        self.blocked = False      # reported a yield: waits for someone else's unlock
        self.result = None
        self.steps = 0

    def next_report(self):
        """wait until the actor reports its next gated event or finishes"""
        while True:
            if b'\n' in self.buf:
                line, self.buf = self.buf.split(b'\n', 1)
                parts = line.decode(errors='replace').split(' ', 2)
                self.pending = (parts[1], parts[2] if len(parts) > 2 else '')
                return
            r, _, _ = select.select([self.report_r], [], [], 60)
            if not r:
                raise RuntimeError('actor %d silent for 60 s (pending %r)' % (self.idx, self.pending))
            chunk = os.read(self.report_r, 65536)
            if not chunk:
                self.done = True
                self.pending = None
                self.result = read_result(self.result_r)
                os.close(self.report_r)
                os.close(self.go_w)
                os.waitpid(self.pid, 0)
                return
            self.buf += chunk


def sched_run(spec):
    """one execution of a scenario under a given schedule prefix.
    spec: backend, root, prior, actors=[{'ops': [...], 'cached': bool}], prefix=[choice indices], reads=bool"""
    backend, root = spec['backend'], spec['root']
    setup_store(spec)
    actors = []
    for idx, a in enumerate(spec['actors']):
        rr, rw = os.pipe()
        gr, gw = os.pipe()

        def fn(a=a, rw=rw, gr=gr, rr=rr, gw=gw, idx=idx):
            os.close(rr)
            os.close(gw)
            for other in actors:        # do not keep the other actors' pipes open
                for fd in (other.report_r, other.go_w, other.result_r):
                    try:
                        os.close(fd)
                    except OSError:
                        pass
            ctx = {'backend': backend, 'root': root}
            import random
            random.seed(1000 + idx)       # separate processes draw different temporary names
            lib().fsg_reset_fds()
            lib().fsg_config(root.encode(), 0, -1, -1, -1, 0, 0)
            h = None
            out = []
            if a.get('open_gated'):
                lib().fsg_config(root.encode(), 3, rw, gr, -1, 0, 1 if spec.get('reads') else 0)
                try:
                    h = open_handle(backend, root, cached=a.get('cached', False))
                except BaseException as e:
                    out.append(('exc', type(e).__name__, str(e)[:200]))
            else:
                h = open_handle(backend, root, cached=a.get('cached', False))
                lib().fsg_config(root.encode(), 3, rw, gr, -1, 0, 1 if spec.get('reads') else 0)
            if h is not None:
                for op in a['ops']:
                    out.append(safe_op(h, op, ctx))
            if a.get('linger'):
                # the process has finished its operations but stays alive, idle, with its handle open, until every
                # other process is done: report a pseudo event and wait for the scheduler
                os.write(rw, b'0 idle -\n')
                os.read(gr, 1)
            lib().fsg_mode(0)
            return out
        pid, result_r = fork_child(fn)
        os.close(rw)
        os.close(gr)
        act = Actor(idx, pid, rr, gw, result_r)
        actors.append(act)
        act.next_report()           # workers are started one at a time
    prefix = list(spec.get('prefix', ()))
    trace = []          # (enabled tuple, chosen, kind, path)
    current = None
    step = 0
    maxsteps = spec.get('maxsteps', 4000)
    deadlock = False
    while True:
        live = [a for a in actors if not a.done]
        if not live:
            break
        busy = [a for a in live if not (a.pending and a.pending[0] == 'idle')]
        if not busy:
            # only idle (lingering) processes are left: let them exit, lowest id first
            act = live[0]
            trace.append(((act.idx,), 0, 'exit', '-', False))
            os.write(act.go_w, b'g')
            act.next_report()
            step += 1
            continue
        enabled = [a.idx for a in busy if not a.blocked]
        if not enabled:
            # everyone waits for somebody else's unlock: let the waiters retry (sqlite's busy handler would)
            for a in busy:
                a.blocked = False
            enabled = [a.idx for a in busy]
            deadlock = True
        # canonical order: the running actor first if still enabled, then ascending ids
        order = ([current] if current in enabled else []) + [i for i in enabled if i != current]
        choice = prefix[step] if step < len(prefix) else 0
        if choice >= len(order):
            raise RuntimeError('replay divergence at step %d: choice %d of %d' % (step, choice, len(order)))
        idx = order[choice]
        act = actors[idx]
        kind, path = act.pending
        trace.append((tuple(order), choice, kind, path, current in enabled))
        os.write(act.go_w, b'g')
        act.steps += 1
        act.next_report()
        if kind == 'yield':
            act.blocked = True
        if kind.startswith('unlock') or act.done:
            for a in actors:
                a.blocked = False
        current = idx
        step += 1
        if step > maxsteps:
            for a in actors:
                if not a.done:
                    os.kill(a.pid, signal.SIGKILL)
            raise RuntimeError('schedule exceeded %d steps' % maxsteps)
    final, _ = run_plain(lambda: recovery(backend, root))
    return {'trace': trace, 'results': [a.result for a in actors], 'final': final, 'deadlock_retries': deadlock}


# ---------------------------------------------------------------------------

def serve():
    inp = os.fdopen(os.dup(0), 'rb')
    out = os.fdopen(os.dup(1), 'wb')
    sys.stdout = sys.stderr
    devnull = os.open(os.devnull, os.O_RDWR)
    os.dup2(devnull, 0)
    os.dup2(2, 1)
    import klepto          # noqa: warm up imports before any fork
    import klepto.archives
    import dill
    from vfw.engines import archmc
    gc.collect()
    gc.disable()
    while True:
        hdr = inp.read(4)
        if len(hdr) < 4:
            return
        n = struct.unpack('<I', hdr)[0]
        req = pickle.loads(inp.read(n))
        try:
            if req['cmd'] == 'crash':
                res = ('ok', crash_run(req['spec']))
            elif req['cmd'] == 'sched':
                res = ('ok', sched_run(req['spec']))
            elif req['cmd'] == 'ping':
                res = ('ok', 'pong')
            else:
                res = ('err', 'unknown command')
        except BaseException as e:
            res = ('err', traceback.format_exc()[-3000:])
        data = pickle.dumps(res)
        out.write(struct.pack('<I', len(data)) + data)
        out.flush()


if __name__ == '__main__':
    serve()
