/* fsgate: LD_PRELOAD shim that turns libc file-system calls under a root
 * directory into numbered events.  Modes (set at run time through fsg_config,
 * called via ctypes after fork):
 *   0 off    - pass through
 *   1 log    - report "n kind path" on report_fd and continue
 *   2 kill   - as log, but at event kill_at: (optional short write) then SIGKILL self
 *   3 gate   - report the event, then block until one byte arrives on go_fd
 * Sleeps (usleep/sleep/nanosleep/clock_nanosleep) are reported as "yield" in gate
 * mode and return at once in every mode but off.
 * Only calls whose path / fd resolves under the configured root are events.
 */
#define _GNU_SOURCE
#include <dlfcn.h>
#include <dirent.h>
#include <errno.h>
#include <fcntl.h>
#include <signal.h>
#include <stdarg.h>
#include <stdio.h>
#include <stdlib.h>
#include <string.h>
#include <sys/stat.h>
#include <sys/syscall.h>
#include <sys/types.h>
#include <sys/uio.h>
#include <time.h>
#include <unistd.h>

#define MAXFD 4096
static int mode = 0;
static char root[1024];
static size_t rootlen = 0;
static int report_fd = -1, go_fd = -1;
static long counter = 0;
static long kill_at = -1;
static int kill_short = 0;      /* 0: kill before the call; 1: after 1 byte; 2: after n/2; 3: after n-1 */
static int gate_reads = 0;
static unsigned char tracked[MAXFD];
static int busy = 0;            /* re-entrancy guard */

#define NDIRS 64
static DIR *dirs[NDIRS];
static char dirpaths[NDIRS][512];

#define REAL(name) static __typeof__(name) *real_##name = NULL; if (!real_##name) real_##name = dlsym(RTLD_NEXT, #name)

void fsg_config(const char *r, int m, int rfd, int gfd, long kat, int kshort, int reads)
{
    mode = m;
    if (r) { strncpy(root, r, sizeof(root) - 1); rootlen = strlen(root); }
    report_fd = rfd; go_fd = gfd; kill_at = kat; kill_short = kshort; gate_reads = reads;
    counter = 0;
}
long fsg_counter(void) { return counter; }
void fsg_mode(int m) { mode = m; }
void fsg_reset_fds(void) { memset(tracked, 0, sizeof(tracked)); }

static void raw_write(int fd, const char *buf, size_t n)
{
    while (n > 0) {
        long w = syscall(SYS_write, fd, buf, n);
        if (w < 0) { if (errno == EINTR) continue; return; }
        buf += w; n -= (size_t)w;
    }
}

static int under_root(const char *p)
{
    if (!rootlen || !p) return 0;
    return strncmp(p, root, rootlen) == 0 && (p[rootlen] == '/' || p[rootlen] == 0);
}

/* resolve (dirfd, path) to an absolute path in buf; returns 1 if under root */
static int resolve(int dirfd, const char *path, char *buf, size_t n)
{
    if (!path) return 0;
    if (path[0] == '/') { snprintf(buf, n, "%s", path); return under_root(buf); }
    char base[1024];
    if (dirfd == AT_FDCWD) {
        if (!syscall(SYS_getcwd, base, sizeof(base))) return 0;
    } else {
        char link[64];
        snprintf(link, sizeof(link), "/proc/self/fd/%d", dirfd);
        long l = syscall(SYS_readlink, link, base, sizeof(base) - 1);
        if (l <= 0) return 0;
        base[l] = 0;
    }
    if (path[0] == 0) snprintf(buf, n, "%s", base);
    else snprintf(buf, n, "%s/%s", base, path);
    return under_root(buf);
}

/* the event hook: returns the event number */
static long event(const char *kind, const char *path)
{
    long n = counter++;
    if (mode == 1 || mode == 2 || mode == 3) {
        char line[1400];
        int l = snprintf(line, sizeof(line), "%ld %s %s\n", n, kind, path ? path + (under_root(path) ? rootlen : 0) : "-");
        if (report_fd >= 0) raw_write(report_fd, line, (size_t)l);
    }
    if (mode == 3 && go_fd >= 0) {
        char c;
        long r;
        do { r = syscall(SYS_read, go_fd, &c, 1); } while (r < 0 && errno == EINTR);
        if (r <= 0) syscall(SYS_exit_group, 97);       /* scheduler went away */
        if (c == 'k') syscall(SYS_kill, syscall(SYS_getpid), SIGKILL);
    }
    return n;
}

static void die(void) { syscall(SYS_kill, syscall(SYS_getpid), SIGKILL); for (;;) ; }

#define ACTIVE (mode != 0 && !busy)

static void track(int fd, int on) { if (fd >= 0 && fd < MAXFD) tracked[fd] = (unsigned char)on; }
static int is_tracked(int fd) { return (fd >= 0 && fd < MAXFD) ? tracked[fd] : 0; }

/* ---------------------------------------------------------------- open */
static int do_open(int dirfd, const char *path, int flags, mode_t m, int which)
{
    static int (*r_open)(const char *, int, ...) = NULL;
    static int (*r_openat)(int, const char *, int, ...) = NULL;
    if (!r_open) r_open = dlsym(RTLD_NEXT, "open64");
    if (!r_openat) r_openat = dlsym(RTLD_NEXT, "openat64");
    char buf[1200];
    int tr = !busy && rootlen && resolve(dirfd, path, buf, sizeof(buf));
    int ev = ACTIVE && tr;
    if (ev) {
        const char *kind = (flags & (O_CREAT | O_TRUNC)) ? "creat" : ((flags & O_ACCMODE) != O_RDONLY ? "openw" : ((flags & O_DIRECTORY) ? "opendir" : "open"));
        long n = event(kind, buf);
        if (mode == 2 && n == kill_at && strcmp(kind, "open") && strcmp(kind, "opendir")) die();
    }
    int fd = which ? r_openat(dirfd, path, flags, m) : r_open(path, flags, m);
    if (tr && fd >= 0) track(fd, ((flags & O_ACCMODE) != O_RDONLY) ? 2 : 1);
    else if (fd >= 0) track(fd, 0);
    return fd;
}
int open(const char *path, int flags, ...) { va_list ap; va_start(ap, flags); mode_t m = va_arg(ap, mode_t); va_end(ap); return do_open(AT_FDCWD, path, flags, m, 0); }
int open64(const char *path, int flags, ...) { va_list ap; va_start(ap, flags); mode_t m = va_arg(ap, mode_t); va_end(ap); return do_open(AT_FDCWD, path, flags, m, 0); }
int openat(int dirfd, const char *path, int flags, ...) { va_list ap; va_start(ap, flags); mode_t m = va_arg(ap, mode_t); va_end(ap); return do_open(dirfd, path, flags, m, 1); }
int openat64(int dirfd, const char *path, int flags, ...) { va_list ap; va_start(ap, flags); mode_t m = va_arg(ap, mode_t); va_end(ap); return do_open(dirfd, path, flags, m, 1); }

FILE *fopen64(const char *path, const char *m)
{
    REAL(fopen64);
    char buf[1200];
    int ev = ACTIVE && resolve(AT_FDCWD, path, buf, sizeof(buf));
    if (ev) {
        long n = event(strchr(m, 'r') && !strchr(m, '+') ? "open" : "creat", buf);
        if (mode == 2 && n == kill_at && !(strchr(m, 'r') && !strchr(m, '+'))) die();
    }
    FILE *f = real_fopen64(path, m);
    if (ev && f) track(fileno(f), strchr(m, 'r') && !strchr(m, '+') ? 1 : 2);
    return f;
}

/* ---------------------------------------------------------------- write */
static char fdpathbuf[1200];
static const char *fdpath(int fd)
{
    char link[64];
    snprintf(link, sizeof(link), "/proc/self/fd/%d", fd);
    long l = syscall(SYS_readlink, link, fdpathbuf, sizeof(fdpathbuf) - 1);
    if (l <= 0) return "-";
    fdpathbuf[l] = 0;
    return fdpathbuf;
}

static size_t shortlen(size_t n)
{
    if (kill_short == 1) return n > 1 ? 1 : 0;
    if (kill_short == 2) return n / 2;
    if (kill_short == 3) return n > 0 ? n - 1 : 0;
    return 0;
}

ssize_t write(int fd, const void *b, size_t n)
{
    REAL(write);
    if (ACTIVE && is_tracked(fd) && fd != report_fd) {
        long e = event("write", fdpath(fd));
        if (mode == 2 && e == kill_at) {
            size_t k = shortlen(n);
            if (kill_short && k > 0) real_write(fd, b, k);
            die();
        }
    }
    return real_write(fd, b, n);
}
ssize_t pwrite64(int fd, const void *b, size_t n, off64_t off)
{
    REAL(pwrite64);
    if (ACTIVE && is_tracked(fd)) {
        long e = event("pwrite", fdpath(fd));
        if (mode == 2 && e == kill_at) {
            size_t k = shortlen(n);
            if (kill_short && k > 0) real_pwrite64(fd, b, k, off);
            die();
        }
    }
    return real_pwrite64(fd, b, n, off);
}
ssize_t pwrite(int fd, const void *b, size_t n, off_t off) { return pwrite64(fd, b, n, off); }
ssize_t writev(int fd, const struct iovec *iov, int cnt)
{
    REAL(writev);
    if (ACTIVE && is_tracked(fd)) {
        long e = event("writev", fdpath(fd));
        if (mode == 2 && e == kill_at) {
            if (kill_short && cnt > 0 && iov[0].iov_len > 0) { size_t k = shortlen(iov[0].iov_len); if (k) syscall(SYS_write, fd, iov[0].iov_base, k); }
            die();
        }
    }
    return real_writev(fd, iov, cnt);
}
ssize_t read(int fd, void *b, size_t n)
{
    REAL(read);
    if (ACTIVE && gate_reads && mode == 3 && is_tracked(fd) && fd != go_fd) event("read", fdpath(fd));
    return real_read(fd, b, n);
}
ssize_t pread64(int fd, void *b, size_t n, off64_t off)
{
    REAL(pread64);
    if (ACTIVE && gate_reads && mode == 3 && is_tracked(fd)) event("pread", fdpath(fd));
    return real_pread64(fd, b, n, off);
}
int close(int fd)
{
    REAL(close);
    if (ACTIVE && is_tracked(fd) == 2) {
        long e = event("close", fdpath(fd));
        if (mode == 2 && e == kill_at) die();
    }
    track(fd, 0);
    return real_close(fd);
}
int fclose(FILE *f)
{
    REAL(fclose);
    int fd = f ? fileno(f) : -1;
    if (ACTIVE && is_tracked(fd) == 2) {
        /* stdio flushes here: a buffered write and the close are one event at this granularity */
        long e = event("fclose", fdpath(fd));
        if (mode == 2 && e == kill_at) die();
    }
    busy++;
    int r = real_fclose(f);
    busy--;
    track(fd, 0);
    return r;
}
int ftruncate64(int fd, off64_t len)
{
    REAL(ftruncate64);
    if (ACTIVE && is_tracked(fd)) { long e = event("ftruncate", fdpath(fd)); if (mode == 2 && e == kill_at) die(); }
    return real_ftruncate64(fd, len);
}
int ftruncate(int fd, off_t len) { return ftruncate64(fd, len); }
int fsync(int fd)
{
    REAL(fsync);
    if (ACTIVE && is_tracked(fd)) { long e = event("fsync", fdpath(fd)); if (mode == 2 && e == kill_at) die(); }
    return real_fsync(fd);
}
int fdatasync(int fd)
{
    REAL(fdatasync);
    if (ACTIVE && is_tracked(fd)) { long e = event("fdatasync", fdpath(fd)); if (mode == 2 && e == kill_at) die(); }
    return real_fdatasync(fd);
}

/* ---------------------------------------------------------------- namespace */
#define MUT1(name, kind, dirfd, path, call) \
    char buf[1200]; \
    if (ACTIVE && resolve(dirfd, path, buf, sizeof(buf))) { long e = event(kind, buf); if (mode == 2 && e == kill_at) die(); } \
    return call;

int mkdir(const char *p, mode_t m) { REAL(mkdir); MUT1(mkdir, "mkdir", AT_FDCWD, p, real_mkdir(p, m)) }
int mkdirat(int d, const char *p, mode_t m) { REAL(mkdirat); MUT1(mkdirat, "mkdir", d, p, real_mkdirat(d, p, m)) }
int rmdir(const char *p) { REAL(rmdir); MUT1(rmdir, "rmdir", AT_FDCWD, p, real_rmdir(p)) }
int unlink(const char *p) { REAL(unlink); MUT1(unlink, "unlink", AT_FDCWD, p, real_unlink(p)) }
int unlinkat(int d, const char *p, int f) { REAL(unlinkat); MUT1(unlinkat, (f & AT_REMOVEDIR) ? "rmdir" : "unlink", d, p, real_unlinkat(d, p, f)) }
int rename(const char *a, const char *b) { REAL(rename); MUT1(rename, "rename", AT_FDCWD, b, real_rename(a, b)) }
int renameat(int da, const char *a, int db, const char *b) { REAL(renameat); MUT1(renameat, "rename", db, b, real_renameat(da, a, db, b)) }
int renameat2(int da, const char *a, int db, const char *b, unsigned int f) { REAL(renameat2); MUT1(renameat2, "rename", db, b, real_renameat2(da, a, db, b, f)) }
int link(const char *a, const char *b) { REAL(link); MUT1(link, "link", AT_FDCWD, b, real_link(a, b)) }
int linkat(int da, const char *a, int db, const char *b, int f) { REAL(linkat); MUT1(linkat, "link", db, b, real_linkat(da, a, db, b, f)) }
int symlink(const char *a, const char *b) { REAL(symlink); MUT1(symlink, "symlink", AT_FDCWD, b, real_symlink(a, b)) }
int symlinkat(const char *a, int db, const char *b) { REAL(symlinkat); MUT1(symlinkat, "symlink", db, b, real_symlinkat(a, db, b)) }
int truncate64(const char *p, off64_t l) { REAL(truncate64); MUT1(truncate64, "truncate", AT_FDCWD, p, real_truncate64(p, l)) }

/* ---------------------------------------------------------------- queries (events in log / gate mode only, never a crash point) */
#define QRY(kind, dirfd, path) \
    char buf[1200]; \
    if (ACTIVE && resolve(dirfd, path, buf, sizeof(buf))) event(kind, buf);

int stat64(const char *p, struct stat64 *s) { REAL(stat64); QRY("stat", AT_FDCWD, p) return real_stat64(p, s); }
int lstat64(const char *p, struct stat64 *s) { REAL(lstat64); QRY("stat", AT_FDCWD, p) return real_lstat64(p, s); }
int fstatat64(int d, const char *p, struct stat64 *s, int f) { REAL(fstatat64); if (p && p[0]) { QRY("stat", d, p) } return real_fstatat64(d, p, s, f); }
int stat(const char *p, struct stat *s) { REAL(stat); QRY("stat", AT_FDCWD, p) return real_stat(p, s); }
int lstat(const char *p, struct stat *s) { REAL(lstat); QRY("stat", AT_FDCWD, p) return real_lstat(p, s); }
int fstatat(int d, const char *p, struct stat *s, int f) { REAL(fstatat); if (p && p[0]) { QRY("stat", d, p) } return real_fstatat(d, p, s, f); }
int access(const char *p, int m) { REAL(access); QRY("access", AT_FDCWD, p) return real_access(p, m); }
int faccessat(int d, const char *p, int m, int f) { REAL(faccessat); QRY("access", d, p) return real_faccessat(d, p, m, f); }

static void dir_add(DIR *d, const char *path)
{
    for (int i = 0; i < NDIRS; i++) if (!dirs[i]) { dirs[i] = d; snprintf(dirpaths[i], sizeof(dirpaths[i]), "%s", path); return; }
}
DIR *opendir(const char *p)
{
    REAL(opendir);
    char buf[1200];
    int ev = ACTIVE && resolve(AT_FDCWD, p, buf, sizeof(buf));
    busy++;
    DIR *d = real_opendir(p);
    busy--;
    if (ev && d) dir_add(d, buf);
    return d;
}
DIR *fdopendir(int fd)
{
    REAL(fdopendir);
    DIR *d = real_fdopendir(fd);
    if (ACTIVE && d && is_tracked(fd)) dir_add(d, fdpath(fd));
    return d;
}
struct dirent64 *readdir64(DIR *d)
{
    REAL(readdir64);
    if (ACTIVE) {
        for (int i = 0; i < NDIRS; i++) if (dirs[i] == d) { dirs[i] = NULL; event("listdir", dirpaths[i]); break; }
    }
    return real_readdir64(d);
}
struct dirent *readdir(DIR *d)
{
    REAL(readdir);
    if (ACTIVE) {
        for (int i = 0; i < NDIRS; i++) if (dirs[i] == d) { dirs[i] = NULL; event("listdir", dirpaths[i]); break; }
    }
    return real_readdir(d);
}
int closedir(DIR *d)
{
    REAL(closedir);
    for (int i = 0; i < NDIRS; i++) if (dirs[i] == d) dirs[i] = NULL;
    busy++;
    int r = real_closedir(d);
    busy--;
    return r;
}

/* ---------------------------------------------------------------- locks and sleeps */
static int do_fcntl(int fd, int cmd, void *arg)
{
    static int (*r_fcntl)(int, int, ...) = NULL;
    if (!r_fcntl) r_fcntl = dlsym(RTLD_NEXT, "fcntl64");
    if (ACTIVE && is_tracked(fd) && (cmd == F_SETLK || cmd == F_SETLKW || cmd == F_OFD_SETLK || cmd == F_GETLK)) {
        struct flock *fl = (struct flock *)arg;
        char kind[64];
        snprintf(kind, sizeof(kind), "%s:%ld+%ld", fl->l_type == F_UNLCK ? "unlock" : (fl->l_type == F_WRLCK ? "wrlock" : "rdlock"),
                 (long)fl->l_start, (long)fl->l_len);
        event(kind, fdpath(fd));
    }
    return r_fcntl(fd, cmd, arg);
}
int fcntl(int fd, int cmd, ...) { va_list ap; va_start(ap, cmd); void *a = va_arg(ap, void *); va_end(ap); return do_fcntl(fd, cmd, a); }
int fcntl64(int fd, int cmd, ...) { va_list ap; va_start(ap, cmd); void *a = va_arg(ap, void *); va_end(ap); return do_fcntl(fd, cmd, a); }

int usleep(useconds_t u)
{
    REAL(usleep);
    if (ACTIVE) { if (mode == 3) event("yield", NULL); return 0; }
    return real_usleep(u);
}
unsigned int sleep(unsigned int s)
{
    REAL(sleep);
    if (ACTIVE) { if (mode == 3) event("yield", NULL); return 0; }
    return real_sleep(s);
}
int nanosleep(const struct timespec *a, struct timespec *b)
{
    REAL(nanosleep);
    if (ACTIVE) { if (mode == 3) event("yield", NULL); return 0; }
    return real_nanosleep(a, b);
}
int clock_nanosleep(clockid_t c, int f, const struct timespec *a, struct timespec *b)
{
    REAL(clock_nanosleep);
    if (ACTIVE) { if (mode == 3) event("yield", NULL); return 0; }
    return real_clock_nanosleep(c, f, a, b);
}
