#!/usr/bin/env python3
"""regenerates MANIFEST.json from the table below (kept in one place so it stays valid)"""
import json

CLAIMED = {
 'C01': ('model_checking', 'cachemc', 'explicit-state BFS + stateless DFS over event sequences on the real decorators vs the undecorated function',
         'Every event sequence over call/dump/load/clear/toggle/redecorate events on the real wrapper, for the decorator x maxsize x purge x keymap x backend matrix, to BFS closure or a reported depth/state cap; each call result compared with the undecorated function.'),
 'C02': ('model_checking', 'cachemc', 'explicit-state BFS (product with evaluated-keys model) on the real decorators',
         'Same exploration; monitor: the function is evaluated only when its key is in neither memory nor the attached archive, and a key that was never legitimately lost is never evaluated twice (incl. across re-decoration on the same archive).'),
 'C03': ('model_checking', 'archmc', 'explicit-state BFS over dict-protocol operation sequences: real archive vs dict reference model',
         'Every operation sequence (to closure / cap) over ~70 operation instances on colliding key triples, on every archive backend, compared step by step with a dict; contents, length and a neighbouring archive re-checked after every step.'),
 'C04': ('model_checking', 'archmc', 'explicit-state BFS of write histories; every state re-read by fresh handles, copies, unpickled handles, another process and after writer exit',
         'After every transition of the C03 exploration on persistent backends a fresh handle / copy() / pickled handle / separate reader process must see exactly the model; every state is also replayed in a forked writer that _exit()s; stores opened by a relative name are additionally re-read after a chdir (same handle, copy, unpickled handle, handle rebuilt from .state).'),
 'C05': ('model_checking', 'cachemc', 'explicit-state BFS on the real decorators with capacity invariant',
         'Capacity invariant checked after every call of every explored history, incl. pre-seeded / bulk-loaded caches and maxsize 0/None passed positionally or by keyword.'),
 'C06': ('model_checking', 'cachemc', 'explicit-state BFS (product with recency/frequency reference model), exhaustive RR chooser',
         'Evicted set compared with a recency list / use counter reference model on every overflowing insertion; RR explored over every choice of random.choice; LRU queue compaction reached through macro events.'),
 'C07': ('model_checking', 'cachemc', 'explicit-state BFS on archived configurations',
         'Every entry that leaves memory must be in the archive with the same value; every computed and not cleared result stays retrievable; archive entries never change; a persistent archive is read through a fresh handle (what has really reached the store).'),
 'C08': ('model_checking', 'syncmc', 'explicit-state BFS over cache/archive/sync/toggle operations vs a two-dict reference model',
         'BFS to closure (in-memory) or cap (persistent) over cache mutations, direct archive mutations, dump/load/sync with and without keys, archived on/off, open/drop; cache, attached and parked archive contents (for persistent archives also as seen by a fresh handle) compared with the model after every step; the dedup key is the product of model and implementation state.'),
 'C09': ('exploration', 'callmc', 'exhaustive enumeration of signature grammar x call forms x keymaps against the interpreter\'s own binding',
         'Complete enumeration of a finite signature x call-form x keymap space; calls the interpreter binds identically must get one key and one evaluation.'),
 'C10': ('exploration', 'callmc', 'exhaustive enumeration of signature grammar x call pairs x information-preserving keymaps',
         'Complete enumeration; calls bound differently must get different keys, typed keymaps separate 1/1.0/True; through the cache each call returns its own result.'),
 'C11': ('exploration', 'callmc', 'exhaustive enumeration of signatures x ignore specifications x call pairs against a masked-binding oracle',
         'Complete enumeration of ignore specs (names, indices, *, **, self) x signatures x calls; equal masked bindings <=> equal keys, one evaluation per masked binding.'),
 'C12': ('exploration', 'callmc', 'exhaustive enumeration of tol x deep x argument structures x call pairs against an independent rounder',
         'Complete enumeration of a finite structure grammar; equal rounded structures <=> equal keys; the function receives the caller\'s objects; standalone rounding decorators against the same oracle.'),
 'C13': ('fault_enumeration', 'crashmc', 'every crash point and torn-write prefix of every mutating operation, at libc-call granularity (LD_PRELOAD shim), recovery in a fresh process',
         'Process killed before every file-system call (and after short writes) of every operation x prior state x archive configuration; recovery oracle old-or-new per touched key (composite calls judged at the boundaries of the listed operations they consist of).'),
 'C14': ('model_checking', 'schedmc', 'exhaustive interleaving exploration (iterative preemption bounding) of 2-3 real processes gated at libc file-system calls',
         'Every schedule up to the preemption bound of real processes sharing one store; short scenarios with every interleaving; oracle: no lost entries, no phantom or torn reads, readers never fail, an idle process that has finished its operation never keeps a writer out.'),
 'C15': ('model_checking', 'cachemc', 'explicit-state BFS with per-transition statistics oracle',
         'info() delta of every transition compared with the classification (hit/load/miss) derived from the pre-state; clear / keepstats / size / maxsize checked.'),
 'C16': ('model_checking', 'cachemc', 'explicit-state BFS with raising calls; exhaustive enumeration of un-keyable arguments for safe decorators',
         'Raising calls anywhere in a history: same exception object, one evaluation, full state (bookkeeping, archive, statistics) unchanged; safe decorators with unhashable / unencodable arguments in every explored state.'),
 'C17': ('exploration', 'callmc', 'exhaustive key tables compared across interpreters with different hash seeds; write/read session pairs over persistent archives',
         'Key tables for the full call set byte-identical across PYTHONHASHSEED values and with the builtin hash disabled; a second session with permuted spellings is served by loads only.'),
 'C18': ('model_checking', 'cachemc', 'explicit-state BFS with key()/lookup() probes in every state',
         'key()/lookup() leave the complete state unchanged, agree with what calls store, for all decorators x keymaps x ignore/tol settings.'),
 'C19': ('exploration', 'callmc', 'exhaustive enumeration of callables x argument lists against the interpreter\'s binding',
         'isvalid/validate compared with really calling a side-effect-free stub for every signature x form (function, bound method, callable instance, partial) x call.'),
 'C20': ('model_checking', 'cachemc', 'explicit-state BFS with dill round trips as events + differential continuation check',
         'Clone state equals original at every reachable state; every continuation up to the bound gives identical observations on clone and original; independence afterwards.'),
}
NOTES = {
 'model_checking': 'bounded: alphabets, depth/state caps and closure status are reported in the evidence; determinism of the wrappers in (closure cells, cache, archive, arguments, chooser answers) is assumed for state merging and cross-checked by a stateless DFS in the thorough tier',
 'exploration': 'finite grammar of signatures / values; nothing is claimed outside the printed alphabets',
 'fault_enumeration': 'process-kill model (completed calls durable); libc interposition validated against strace',
}
READY = ['C01','C02','C03','C04','C08','C13','C14','C05','C06','C07','C09','C10','C11','C12','C15','C16','C17','C18','C19','C20']


def main():
    import sys
    ready = READY
    checks = []
    for pid in sorted(CLAIMED):
        if pid not in ready:
            continue
        level, engine, technique, text = CLAIMED[pid]
        checks.append({
            'property_id': pid,
            'quick_cmd': './vf check %s --tier quick' % pid,
            'thorough_cmd': './vf check %s --tier thorough' % pid,
            'evidence_file': '/verif/evidence/%s.json' % pid,
            'replay_cmd_template': './vf replay {path}',
            'engine': engine,
            'level_claimed': {'category': level, 'text': text, 'design_ref': 'DESIGN.md section 4 (%s)' % pid},
            'level_note': NOTES[level],
            'technique': technique,
        })
    na = [{'property_id': p, 'reason': 'check under construction in this round (engine %s); not claimed until it runs clean' % CLAIMED[p][1]}
          for p in sorted(CLAIMED) if p not in ready]
    m = {
        'version': 1,
        'setup_cmd': 'cd /verif && ./setup.sh',
        'hooks': {
            'guard': 'KLEPTO_VERIF',
            'enable': 'no source hooks: klepto is installed editable from /repo; every seam (random.choice, temp names, libc I/O) is reached from outside the source',
            'baseline_off_cmd': 'cd /repo && /venv/bin/python -m pytest -ra -q -p no:cacheprovider --timeout=900 --continue-on-collection-errors',
            'source_commits': [],
            'add_only': True,
        },
        'engines': [
            {'name': 'cachemc', 'path': 'vfw/engines/cachemc.py', 'serves_properties': ['C01','C02','C05','C06','C07','C15','C16','C18','C20'], 'kind_free_text': 'explicit-state BFS + stateless DFS over the real decorated function'},
            {'name': 'archmc', 'path': 'vfw/engines/archmc.py', 'serves_properties': ['C03','C04'], 'kind_free_text': 'explicit-state BFS of archive operations vs dict'},
            {'name': 'syncmc', 'path': 'vfw/props/c08.py', 'serves_properties': ['C08'], 'kind_free_text': 'explicit-state BFS of cache/archive synchronisation vs two-dict model'},
            {'name': 'callmc', 'path': 'vfw/engines/callmc.py', 'serves_properties': ['C09','C10','C11','C12','C17','C19'], 'kind_free_text': 'exhaustive enumeration of signature x call x configuration spaces'},
            {'name': 'crashmc', 'path': 'vfw/engines/fsgate.py', 'serves_properties': ['C13'], 'kind_free_text': 'crash-point enumeration via LD_PRELOAD shim'},
            {'name': 'schedmc', 'path': 'vfw/engines/fsgate.py', 'serves_properties': ['C14'], 'kind_free_text': 'schedule enumeration of real processes via LD_PRELOAD shim'},
        ],
        'checks': checks,
        'not_applicable': na,
        'notes': 'Known findings are listed in /verif/known_findings.json; repaired defects are fix: commits in /repo recorded there as status=fixed.',
    }
    # (kept even when empty: every property is claimed)
    json.dump(m, open('MANIFEST.json', 'w'), indent=1)
    print('checks:', len(checks), 'not claimed:', [x['property_id'] for x in na])


if __name__ == '__main__':
    main()
