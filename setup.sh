#!/bin/bash
# offline setup: build the LD_PRELOAD shim (if its source is present) and scratch dirs
set -e
cd "$(dirname "${BASH_SOURCE[0]}")"
mkdir -p build evidence replays
if [ -f fsgate/fsgate.c ]; then
  gcc -O2 -shared -fPIC -o build/fsgate.so fsgate/fsgate.c -ldl
fi
/venv/bin/python -c "import klepto, dill, pox; print('klepto', klepto.__version__)"
